"""Shared path-sensitive model of qmail-send's queue handling, used by C02, C03, C04, C10,
C14, C15, C16.  Each analyse_*() explores one routine of qmail-send.c with the ESP engine and
returns {instance: (ok, where, detail, path)}; property rule files pick the instances that
belong to their clauses.  File roles come from the last fnmake_* on the path; descriptors
carry the role of the name they were opened with; substdio objects carry the role of their
descriptor.
"""
from qv.core import AnalysisBroken
from qv.esp import Engine, Outcome, TOP, fs
from qv.lib import QHooks

NONE, CREATED, DIRTY, FLUSHED, SYNCED, BROKEN = 'NONE', 'CREATED', 'DIRTY', 'FLUSHED', 'SYNCED', 'BROKEN'
ENOENT, EIO = 2, 5
BYTE = frozenset(range(-128, 128))


def g1(E, k, d=None):
    v = E.get(k)
    return next(iter(v)) if v else d


from rules import libtab


class SendHooks(QHooks):
    """common vocabulary; subclasses add monitors"""
    tracked = frozenset(['G:tododir', 'G:flagexitasap', 'G:dline', 'G:todoline', 'G:flagcleanup'])
    precise = frozenset(['L:c'])
    unit = 'qmail-send.c'
    heap_tables = (r'^G:jo$', r'^G:d\[\d\]$')      # the job table and the two delivery-slot tables

    def __init__(self):
        self.sites = {}
        self.counts = {}

    def site(self, inst, x, ok, detail, E, kill=True):
        prev = self.sites.get(inst)
        if prev is None or (prev[0] and not ok):
            self.sites[inst] = (ok, x.where if x is not None else self.unit, detail, E.trace.list() if not ok else [])
        if not ok and kill:
            E.kill()

    def count(self, k):
        self.counts[k] = self.counts.get(k, 0) + 1

    # ---- names: every queue file name is made by fmtqfn(buffer, directory prefix, id, split flag); the role is the prefix
    CHANDIR = {'local/': 0, 'remote/': 1}

    def prim_fmtqfn(self, E, x, args):
        p = x.args[0].path()
        if p not in ('G:fn.s', 'G:fn2.s'):
            v = args[0]
            tgt = next(iter(v)) if v is not TOP and len(v) == 1 else None
            p = {'G:fn.s[0]': 'G:fn.s', 'G:fn2.s[0]': 'G:fn2.s'}.get(tgt[1] if isinstance(tgt, tuple) and tgt[0] == '&' else None)
            if p is None:
                return [Outcome(ret=TOP)]       # a length query (fmtqfn(0,..)) or another buffer
        dv = args[1]
        strs = {e[1] for e in dv if isinstance(e, tuple) and e[0] == 'str'} if dv is not TOP else set()
        if dv is not TOP and len(strs) == len(dv) and len(strs) == 1:
            d = next(iter(strs))
            role = ('chan', self.CHANDIR[d]) if d in self.CHANDIR else DIRROLE.get(d, ('lit', d))
        elif strs and strs <= set(self.CHANDIR) and len(strs) == len(dv):
            role = ('chan', '?')
        else:
            q = x.args[1].path()
            role = ('chan', '?') if q is not None and q.startswith('G:chanaddr[') else '?'
        E.set('$fn' if p == 'G:fn.s' else '$fn2', fs(role))
        return [Outcome(ret=TOP)]

    def role_of(self, E, argx):
        """role of a path-name argument (fn.s / fn2.s)"""
        p = argx.path()
        if p == 'G:fn.s':
            return g1(E, '$fn', '?')
        if p == 'G:fn2.s':
            return g1(E, '$fn2', '?')
        s = argx.string
        if s is not None:
            return ('lit', s)
        return ('expr', argx.src())

    def prim___errno_location(self, E, x, args):
        return [Outcome(ret=fs(('&', '$errno')))]

    def _stat(self, E, x, args):
        role = self.role_of(E, x.args[0])
        self.count('stat')
        return [Outcome(ret=fs(0), sets={'$stat:%s' % (role,): fs('exists')}, log='stat(%s) ok' % (role,)),
                Outcome(ret=fs(-1), sets={'$errno': fs(ENOENT), '$stat:%s' % (role,): fs('noent')}, log='stat(%s) = ENOENT' % (role,)),
                Outcome(ret=fs(-1), sets={'$errno': fs(EIO), '$stat:%s' % (role,): fs('error')}, log='stat(%s) fails (EIO)' % (role,))]

    prim_stat = _stat

    def prim_nomem(self, E, x, args):
        return [Outcome(ret=TOP)]

    def prim_now(self, E, x, args):
        return [Outcome(ret=TOP)]

    def _log(self, E, x, args):
        return [Outcome(ret=TOP)]

    prim_log1 = prim_log3 = prim_qslog2 = prim_logsafe = prim_sleep = prim_pausedir = _log

    def prim_cleandied(self, E, x, args):
        E.set('$cleandied', fs(1))
        return [Outcome(ret=TOP, log='cleandied()')]

    def prim_close(self, E, x, args):
        return [Outcome(ret=TOP)]

    def prim_prioq_insert(self, E, x, args):
        q = x.args[0].strip()
        qn = q.args[0].src() if q.k == 'un' else q.src()
        self.on_insert(E, x, qn)
        return [Outcome(ret=fs(1))]      # the while(!insert) nomem() retry loop always ends with success

    def on_insert(self, E, x, qname):
        n = g1(E, '$ins:' + qname, 0)
        E.set('$ins:' + qname, fs(min(n + 1, 3)))

    # ---- qmail-clean requests
    def clean_request(self, E, x):
        """substdio_putflush(&sstoqc, fn.s, fn.len)"""
        a = x.args[0].strip()
        return a.k == 'un' and a.args[0].path() == 'G:sstoqc'

    def clean_answer(self, E, x, args):
        a = x.args[0].strip()
        if not (a.k == 'un' and a.args[0].path() == 'G:ssfromqc'):
            return None
        chp = None
        if args[1] is not TOP and len(args[1]) == 1:
            (v,) = args[1]
            if isinstance(v, tuple) and v[0] == '&':
                chp = v[1]
        if chp is None:
            raise AnalysisBroken('qmail-clean answer read shape changed: %s' % x.src())
        plus = ord('+')
        return [Outcome(ret=fs(1), sets={chp: fs(plus), '$answer': fs('+')}, log='qmail-clean answers +'),
                Outcome(ret=fs(1), sets={chp: BYTE - {plus}, '$answer': fs('other')}, log='qmail-clean answers something else'),
                Outcome(ret=fs(0), sets={'$answer': fs('eof')}, log='qmail-clean died'),
                Outcome(ret=fs(-1), sets={'$answer': fs('eof')}, log='qmail-clean read error')]


# =============================================================================== todo_do
class TodoHooks(SendHooks):
    def st(self, E, obj):
        return g1(E, '$st:%s' % (obj,), NONE)

    def setst(self, E, obj, s):
        E.set('$st:%s' % (obj,), fs(s))

    def materialize_split(self, E, path):
        # todo_do is entered with no scan open or in the middle of one: both, as concrete values, so that a working copy of the handle carries the same fact
        if path == 'G:tododir':
            return [fs(0), fs(('dir',))]
        return None

    def prim_trigger_pulled(self, E, x, args):
        return [Outcome(ret=fs(0)), Outcome(ret=fs(1))]

    def prim_trigger_set(self, E, x, args):
        td = E.get('G:tododir')
        self.site('todo:no-trigger_set-while-a-scan-is-open', x, td == fs(0), 'trigger_set() while tododir is open (the pull for a message the scan already passed would be discarded)', E)
        E.set('$trig', fs(1))
        return [Outcome(ret=TOP, log='trigger_set()')]

    def prim_opendir(self, E, x, args):
        self.site('todo:trigger_set-before-opendir', x, g1(E, '$trig', 0) == 1,
                  'opendir("todo") without a preceding trigger_set(): a pull arriving during the scan is lost', E)
        self.count('opendir')
        return [Outcome(ret=fs(0), log='opendir fails'), Outcome(ret=fs(('dir',)), log='opendir ok')]

    def prim_readdir(self, E, x, args):
        return [Outcome(ret=fs(0), log='readdir: end'), Outcome(ret=fs(('dent',)), log='readdir: entry')]

    def prim_closedir(self, E, x, args):
        return [Outcome(ret=TOP)]

    def prim_scan_ulong(self, E, x, args):
        return [Outcome(ret=fs(0), havoc=self._arg_roots(E, x, args)), Outcome(ret=fs(3), havoc=self._arg_roots(E, x, args))]

    def prim_open_read(self, E, x, args):
        role = self.role_of(E, x.args[0])
        return [Outcome(ret=fs(('fd', role)), sets={'$opened:%s' % (role,): fs(1)}), Outcome(ret=fs(-1))]

    def prim_unlink(self, E, x, args):
        role = self.role_of(E, x.args[0])
        self.count('unlink')
        ok = role == 'info' or (isinstance(role, tuple) and role[0] == 'chan')
        self.site('todo:removes-only-info-and-channel-files', x, ok, 'todo_do unlinks a file with role %s' % (role,), E)
        self.site('todo:old-files-removed-only-after-todo-opened-and-mess-stat', x,
                  g1(E, '$opened:todo', 0) == 1 and g1(E, '$stat:mess') == 'exists',
                  'stale info/channel files removed before todo/<n> was opened and mess/<n> seen', E)
        self.site('todo:nothing-removed-after-files-are-being-written', x, self.st(E, 'info') == NONE,
                  'unlink after info/<n> was created', E)
        return [Outcome(ret=fs(0)), Outcome(ret=fs(-1), sets={'$errno': fs(ENOENT)}), Outcome(ret=fs(-1), sets={'$errno': fs(EIO)})]

    def prim_open_excl(self, E, x, args):
        role = self.role_of(E, x.args[0])
        ok = role == 'info' or (isinstance(role, tuple) and role[0] == 'chan')
        self.site('todo:creates-only-info-and-channel-files', x, ok, 'todo_do creates a file with role %s' % (role,), E)
        self.count('open_excl')
        return [Outcome(ret=fs(('fd', role)), sets={'$st:%s' % (role,): fs(CREATED)}, log='open_excl(%s) ok' % (role,)),
                Outcome(ret=fs(-1), log='open_excl(%s) fails' % (role,))]

    def _ssrole(self, E, ssx):
        v = E.val(ssx)
        if v is not TOP and len(v) == 1:
            (a,) = v
            if isinstance(a, tuple) and a[0] == '&':
                return g1(E, '$bind:' + a[1]), a[1]
        return None, None

    def prim_substdio_fdbuf(self, E, x, args):
        v = args[0]
        fdv = args[2]
        if v is not TOP and len(v) == 1:
            (a,) = v
            if isinstance(a, tuple) and a[0] == '&' and fdv is not TOP and len(fdv) == 1:
                (f,) = fdv
                if isinstance(f, tuple) and f[0] == 'fd':
                    E.set('$bind:' + a[1], fs(f[1]))
        return [Outcome(ret=TOP)]

    def _put(self, E, x, args, flushes):
        if self.clean_request(E, x):
            return self.request(E, x)
        role, ssp = self._ssrole(E, x.args[0])
        if role is None:
            return [Outcome(ret=fs(0)), Outcome(ret=fs(-1))]
        if isinstance(role, tuple) and role[0] == 'chan':
            n = g1(E, '$put', 0)
            E.set('$put', fs(min(n + 1, 3)))
            src = x.args[1].path()
            self.site('todo:channel-record-is-rwline', x, src == 'G:rwline.s' and x.args[2].path() == 'G:rwline.len',
                      'the record written to the channel file is %s' % x.args[1].src(), E)
            want = g1(E, '$want')
            self.site('todo:record-goes-to-the-channel-rewrite-chose', x, want is None or role[1] == want,
                      'rewrite() chose channel %s, record written to channel %s' % (want, role[1]), E)
        cur = self.st(E, role)
        return [Outcome(ret=fs(0), sets={'$st:%s' % (role,): fs((FLUSHED if flushes else DIRTY) if cur != BROKEN else BROKEN)}),
                Outcome(ret=fs(-1), sets={'$st:%s' % (role,): fs(BROKEN)}, log='write to %s fails' % (role,))]

    def prim_substdio_bput(self, E, x, args):
        return self._put(E, x, args, False)

    def prim_substdio_put(self, E, x, args):
        return self._put(E, x, args, False)

    def prim_substdio_putflush(self, E, x, args):
        return self._put(E, x, args, True)

    def prim_substdio_flush(self, E, x, args):
        role, ssp = self._ssrole(E, x.args[0])
        if role is None:
            return [Outcome(ret=fs(0)), Outcome(ret=fs(-1))]
        cur = self.st(E, role)
        return [Outcome(ret=fs(0), sets={'$st:%s' % (role,): fs(FLUSHED if cur in (CREATED, DIRTY, FLUSHED) else cur)}, log='flush(%s) ok' % (role,)),
                Outcome(ret=fs(-1), sets={'$st:%s' % (role,): fs(BROKEN)}, log='flush(%s) fails' % (role,))]

    def prim_fsync(self, E, x, args):
        v = args[0]
        role = None
        if v is not TOP and len(v) == 1:
            (f,) = v
            if isinstance(f, tuple) and f[0] == 'fd':
                role = f[1]
        if role is None:
            return None
        cur = self.st(E, role)
        return [Outcome(ret=fs(0), sets={'$st:%s' % (role,): fs(SYNCED if cur == FLUSHED else cur)}, log='fsync(%s) ok [%s]' % (role, cur)),
                Outcome(ret=fs(-1), sets={'$st:%s' % (role,): fs(BROKEN)}, log='fsync(%s) fails' % (role,))]

    def prim_getln(self, E, x, args):
        self.end_record(E, x)
        mp = None
        if args[2] is not TOP and len(args[2]) == 1:
            (a,) = args[2]
            if isinstance(a, tuple) and a[0] == '&':
                mp = a[1]
        if mp is None:
            raise AnalysisBroken('todo_do: getln shape changed')
        outs = [Outcome(ret=fs(-1), log='getln fails'),
                Outcome(ret=fs(0), sets={mp: fs(0), '$eof': fs(1), '$rec': TOP}, log='todo file: end')]
        for name, vals in (('u', fs(ord('u'))), ('p', fs(ord('p'))), ('F', fs(ord('F'))), ('T', fs(ord('T'))),
                           ('other', BYTE - {ord('u'), ord('p'), ord('F'), ord('T')})):
            outs.append(Outcome(ret=fs(0), sets={mp: fs(1), 'G:todoline.s[0]': vals, '$rec': fs(name), '$put': fs(0), '$want': TOP},
                                log='todo record %s' % name))
        return outs

    def end_record(self, E, x):
        rec = g1(E, '$rec')
        if rec == 'T':
            self.site('todo:exactly-one-channel-record-per-T', x, g1(E, '$put', 0) == 1,
                      'a T record produced %d channel records' % g1(E, '$put', 0), E)
        elif rec is not None:
            self.site('todo:no-channel-record-for-non-T', x, g1(E, '$put', 0) == 0, 'a %s record produced a channel record' % rec, E)

    def prim_rewrite(self, E, x, args):
        self.site('todo:rewrite-only-for-T-records', x, g1(E, '$rec') == 'T', 'rewrite() for a %s record' % g1(E, '$rec'), E)
        return [Outcome(ret=fs(0), log='rewrite: out of memory'),
                Outcome(ret=fs(1), sets={'$want': fs(0)}, log='rewrite: local'),
                Outcome(ret=fs(2), sets={'$want': fs(1)}, log='rewrite: remote')]

    def request(self, E, x):
        role = self.role_of(E, x.args[1])
        self.count('request')
        self.end_record(E, x)
        self.site('todo:request-names-todo', x, role == 'todo', 'todo_do asks qmail-clean to remove %s' % (role,), E)
        self.site('todo:request-only-after-the-whole-envelope-was-read', x, g1(E, '$eof', 0) == 1, 'removal of todo/<n> requested before the end of the envelope', E)
        self.site('todo:info-SYNCED-before-todo-removal', x, self.st(E, 'info') == SYNCED,
                  'info/<n> is %s when the removal of todo/<n> is requested' % self.st(E, 'info'), E)
        for c in (0, 1):
            s = self.st(E, ('chan', c))
            self.site('todo:channel-files-SYNCED-before-todo-removal', x, s in (NONE, SYNCED),
                      'channel file %d is %s when the removal of todo/<n> is requested' % (c, s), E)
        return [Outcome(ret=fs(0), sets={'$requested': fs(1)}, log='request: remove todo/<n>'),
                Outcome(ret=fs(-1), log='request write fails')]

    def prim_substdio_get(self, E, x, args):
        r = self.clean_answer(E, x, args)
        if r is not None:
            return r
        return [Outcome(ret=fs(-1)), Outcome(ret=fs(0)), Outcome(ret=fs(1), havoc=self._arg_roots(E, x, args))]

    def on_insert(self, E, x, qname):
        super().on_insert(E, x, qname)
        self.count('insert')
        self.site('todo:schedule-only-after-qmail-clean-confirmed', x, g1(E, '$requested', 0) == 1 and g1(E, '$answer') == '+',
                  'message scheduled (%s) although qmail-clean did not confirm the removal of todo/<n> (answer: %s): the next scan would preprocess it again' % (qname, g1(E, '$answer')), E)
        if qname.startswith('pqchan'):
            idx = qname[qname.index('[') + 1:-1]
            try:
                c = int(idx)
            except ValueError:
                c = g1(E, 'todo_do::' + [p for p in ['L:c#0']][0], None)
            if isinstance(c, int):
                self.site('todo:scheduled-channel-has-a-durable-file', x, self.st(E, ('chan', c)) == SYNCED,
                          'pqchan[%s] insert while channel file is %s' % (c, self.st(E, ('chan', c))), E)
        if qname == 'pqdone':
            self.site('todo:pqdone-only-when-no-channel-file', x, self.st(E, ('chan', 0)) == NONE and self.st(E, ('chan', 1)) == NONE,
                      'pqdone insert although a channel file exists', E)

    def on_return(self, E, fn, val):
        if g1(E, '$answer') == '+':
            n = sum(g1(E, k, 0) for k in list(E.store) if k.startswith('$ins:'))
            self.site('todo:confirmed-message-is-scheduled', None, n >= 1, 'qmail-clean confirmed but the message was put on no queue', E)


def analyse_todo_do(db, rep):
    prog = db.program('qmail-send')
    fn = prog.fn('todo_do', 'qmail-send.c')
    H = TodoHooks()
    eng = Engine(db, prog, H, max_states=400000)
    eng.run(fn, {})
    rep.count_states(eng.states, eng.transitions)
    for k, mn in (('opendir', 1), ('open_excl', 2), ('request', 1), ('insert', 2), ('unlink', 2)):
        if H.counts.get(k, 0) < mn and all(v[0] for v in H.sites.values()):
            raise AnalysisBroken('todo_do: event %s explored %d times (< %d)' % (k, H.counts.get(k, 0), mn))
    return H.sites


# =============================================================================== messdone / injectbounce / job_close
class MessdoneHooks(SendHooks):
    def prim_injectbounce(self, E, x, args):
        self.site('md:bounce-injected-only-when-no-channel-file-and-no-todo', x,
                  g1(E, "$stat:('chan', 0)") == 'noent' and g1(E, "$stat:('chan', 1)") == 'noent' and g1(E, '$stat:todo') == 'noent' and g1(E, '$stat:info') == 'exists',
                  'injectbounce() with local=%s remote=%s todo=%s info=%s' % (g1(E, "$stat:('chan', 0)"), g1(E, "$stat:('chan', 1)"), g1(E, '$stat:todo'), g1(E, '$stat:info')), E)
        return [Outcome(ret=fs(0), sets={'$ib': fs(0)}, log='injectbounce fails'), Outcome(ret=fs(1), sets={'$ib': fs(1)}, log='injectbounce ok')]

    def prim_unlink(self, E, x, args):
        role = self.role_of(E, x.args[0])
        self.count('unlink')
        self.site('md:removes-only-info', x, role == 'info', 'messdone unlinks %s' % (role,), E)
        ok = (g1(E, "$stat:('chan', 0)") == 'noent' and g1(E, "$stat:('chan', 1)") == 'noent' and g1(E, '$stat:todo') == 'noent'
              and g1(E, '$stat:info') == 'exists' and g1(E, '$ib') == 1)
        self.site('md:info-removed-only-after-channels+todo-gone-and-bounce-handled', x, ok,
                  'info/<n> unlinked with local=%s remote=%s todo=%s info=%s injectbounce=%s' %
                  (g1(E, "$stat:('chan', 0)"), g1(E, "$stat:('chan', 1)"), g1(E, '$stat:todo'), g1(E, '$stat:info'), g1(E, '$ib')), E)
        return [Outcome(ret=fs(0), sets={'$infogone': fs(1)}), Outcome(ret=fs(-1))]

    def prim_substdio_putflush(self, E, x, args):
        if self.clean_request(E, x):
            role = self.role_of(E, x.args[1])
            self.count('request')
            self.site('md:request-is-foop-after-info-unlinked', x, role == 'foop' and g1(E, '$infogone', 0) == 1,
                      'messdone asks qmail-clean for %s with info-unlinked=%s' % (role, g1(E, '$infogone', 0)), E)
            return [Outcome(ret=fs(0), sets={'$requested': fs(1)}), Outcome(ret=fs(-1))]
        return None

    def prim_substdio_get(self, E, x, args):
        return self.clean_answer(E, x, args)

    def prim_pqadd(self, E, x, args):
        return [Outcome(ret=TOP, sets={'$pqadd': fs(1)}, log='pqadd()')]

    def on_return(self, E, fn, val):
        if fn.name != 'messdone':
            return
        alive = g1(E, "$stat:('chan', 0)") == 'exists' or g1(E, "$stat:('chan', 1)") == 'exists' or g1(E, '$stat:todo') == 'exists'
        nins = sum(g1(E, k, 0) or 0 for k in list(E.store) if k.startswith('$ins:'))
        if alive:
            self.site('md:a-message-that-still-has-a-channel-file-is-left-alone', None, g1(E, '$pqadd', 0) != 1 and nins == 0,
                      'messdone finds local=%s remote=%s todo=%s and schedules the message again (pqadd=%s, queue inserts %s): the channel that is still going already has its entry or its open job - a second entry starts a second pass over the same file, and a recipient whose delivery is in flight is attempted twice' % (
                          g1(E, "$stat:('chan', 0)"), g1(E, "$stat:('chan', 1)"), g1(E, '$stat:todo'), g1(E, '$pqadd', 0), nins), E)
        # schedule conservation: the entry was taken off pqdone by the caller
        silent_ok = (g1(E, "$stat:('chan', 0)") == 'exists' or g1(E, "$stat:('chan', 1)") == 'exists' or g1(E, '$stat:todo') == 'exists'
                     or g1(E, '$stat:info') == 'noent' or g1(E, '$infogone', 0) == 1)
        self.site('md:every-failure-requeues-on-pqdone', None, silent_ok or g1(E, '$ins:pqdone', 0) >= 1,
                  'messdone returns without finishing and without re-inserting the message into pqdone: it would never be looked at again', E)


def analyse_messdone(db, rep):
    prog = db.program('qmail-send')
    fn = prog.fn('messdone', 'qmail-send.c')
    H = MessdoneHooks()
    eng = Engine(db, prog, H)
    eng.run(fn, {})
    rep.count_states(eng.states, eng.transitions)
    if H.counts.get('unlink', 0) < 1 or H.counts.get('request', 0) < 1:
        if all(v[0] for v in H.sites.values()):
            raise AnalysisBroken('messdone: unlink/request not explored')
    return H.sites


class BounceHooks(libtab.SAConc, SendHooks):
    """injectbounce() for a message with a given envelope sender (concrete bytes): qmail_* are primitives"""
    def __init__(self, sender=b'a@b'):
        SendHooks.__init__(self)
        self.sender = sender

    def tracked_global(self, path):
        return True

    def precise_arith(self, path):
        return True

    def prim_getinfo(self, E, x, args):
        # the info file holds the sender as a NUL-terminated record
        ok = self._put(E, x, args, self.sender + b'\0', False)[0]
        ok.sets = dict(ok.sets or {}, **{'$sender': fs(self.sender.decode('latin-1'))})
        return [Outcome(ret=fs(0)), Outcome(ret=fs(1), sets=ok.sets, log='message from <%s>' % self.sender.decode('latin-1'))]

    def prim_qmail_open(self, E, x, args):
        self.count('open')
        self.site('ib:no-injection-for-the-triple-bounce-sender', x, g1(E, '$sender') != '#@[]', 'a bounce is injected for a message from #@[]', E)
        return [Outcome(ret=fs(0), sets={'$qq': fs('open')}), Outcome(ret=fs(-1))]

    def prim_qmail_qp(self, E, x, args):
        return [Outcome(ret=TOP)]

    def _q(self, E, x, args):
        return [Outcome(ret=TOP)]

    prim_qmail_put = prim_qmail_puts = prim_newfield_datemake = prim_quote = prim_quote2 = _q

    def prim_qmail_fail(self, E, x, args):
        E.set('$qqfail', fs(1))
        return [Outcome(ret=TOP, log='qmail_fail')]

    def prim_open_read(self, E, x, args):
        role = self.role_of(E, x.args[0])
        return [Outcome(ret=fs(('fd', role))), Outcome(ret=fs(-1), sets={'$readfail': fs(1)}, log='open_read(%s) fails' % (role,))]

    def prim_substdio_fdbuf(self, E, x, args):
        return [Outcome(ret=TOP)]

    def prim_substdio_get(self, E, x, args):
        return [Outcome(ret=fs(5), havoc=self._arg_roots(E, x, args)), Outcome(ret=fs(0)),
                Outcome(ret=fs(-1), sets={'$readfail': fs(1)}, log='read of bounce/message fails')]

    def prim_qmail_from(self, E, x, args):
        self.count('from')
        E.set('$from', fs(min(g1(E, '$from', 0) + 1, 2)))
        return [Outcome(ret=TOP)]

    def prim_qmail_to(self, E, x, args):
        E.set('$to', fs(min(g1(E, '$to', 0) + 1, 2)))
        return [Outcome(ret=TOP)]

    def prim_qmail_close(self, E, x, args):
        self.count('close')
        self.site('ib:exactly-one-sender-and-one-recipient', x, g1(E, '$from', 0) == 1 and g1(E, '$to', 0) == 1,
                  'bounce envelope has %s sender record(s) and %s recipient record(s)' % (g1(E, '$from', 0), g1(E, '$to', 0)), E)
        rf = g1(E, '$readfail', 0)
        if rf:
            self.site('ib:read-failure-latches-qmail_fail', x, g1(E, '$qqfail', 0) == 1, 'reading the bounce or message file failed and qmail_fail was not called: a truncated notice could be queued', E)
        outs = [Outcome(ret=fs(('str', 'Zfailed')), sets={'$close': fs('fail')}, log='qmail_close: failure')]
        if not g1(E, '$qqfail', 0):
            outs.append(Outcome(ret=fs(('str', '')), sets={'$close': fs('ok')}, log='qmail_close: queued'))
        return outs

    def materialize(self, E, path):
        return TOP

    def prim_unlink(self, E, x, args):
        role = self.role_of(E, x.args[0])
        self.count('unlink')
        ok = role == 'bounce' and (g1(E, '$close') == 'ok' or g1(E, '$sender') == '#@[]')
        self.site('ib:bounce-file-removed-only-after-notice-queued-or-triple-bounce', x, ok,
                  'unlink(%s) with qmail_close=%s sender=%s' % (role, g1(E, '$close'), g1(E, '$sender')), E)
        return [Outcome(ret=fs(0), sets={'$unlinked': fs(1)}), Outcome(ret=fs(-1))]

    def on_return(self, E, fn, val):
        if val is not TOP and any(v != 0 for v in val):
            ok = g1(E, '$unlinked', 0) == 1 or g1(E, '$stat:bounce') == 'noent'
            self.site('ib:returns-1-only-when-bounce-file-is-gone', None, ok,
                      'injectbounce() reports success although bounce/<n> was neither absent nor removed (messdone would delete the message, leaving bounce/<n> behind)', E)


def analyse_injectbounce(db, rep):
    prog = db.program('qmail-send')
    fn = prog.fn('injectbounce', 'qmail-send.c')
    sites, counts = {}, {}
    for snd in (b'a@b', b'', b'#@[]', b'list-owner-@[]', b'x'):
        H = BounceHooks(snd)
        eng = Engine(db, prog, H, max_states=300000)
        eng.run(fn, {})
        rep.count_states(eng.states, eng.transitions)
        for k, v in H.sites.items():
            if k not in sites or (sites[k][0] and not v[0]):
                sites[k] = v
        for k, v in H.counts.items():
            counts[k] = counts.get(k, 0) + v
    if counts.get('unlink', 0) < 1 or counts.get('close', 0) < 1:
        if all(v[0] for v in sites.values()):
            raise AnalysisBroken('injectbounce: unlink/qmail_close not explored')
    return sites


class TodoSkipHooks(TodoHooks):
    """todo_do() from the idle state (no scan open): when may it return without scanning, and what does a scan start set"""
    R = 1000

    def __init__(self, sleep_todo):
        super().__init__()
        self.sleep_todo = sleep_todo

    def tracked_global(self, path):
        return super().tracked_global(path) or path in ('G:recent', 'G:nexttodorun')

    def precise_arith(self, path):
        return path in ('G:recent', 'G:nexttodorun') or super().precise_arith(path)

    def prim_trigger_pulled(self, E, x, args):
        return [Outcome(ret=fs(0), sets={'$pulled': fs(0)}), Outcome(ret=fs(1), sets={'$pulled': fs(1)})]

    def prim_opendir(self, E, x, args):
        self.count('opendir')
        E.set('$tried', fs(1))
        return [Outcome(ret=fs(0), log='opendir fails'), Outcome(ret=fs(('dir',)), sets={'$scan': fs(1)}, log='opendir ok')]

    def prim_pausedir(self, E, x, args):
        return [Outcome(ret=TOP)]

    def prim_readdir(self, E, x, args):
        self.count('readdir')
        self.site('todo:nexttodorun=recent+SLEEP_TODO-when-a-scan-starts', x, g1(E, 'G:nexttodorun') == self.R + self.sleep_todo,
                  'a scan started at time %d leaves nexttodorun=%s (documented recent + SLEEP_TODO = %d): the periodic rescan that catches a lost trigger is not scheduled' %
                  (self.R, g1(E, 'G:nexttodorun'), self.R + self.sleep_todo), E)
        return 'noreturn'

    def on_return(self, E, fn, val):
        if fn.name != 'todo_do' or g1(E, '$tried', 0):
            return
        self.count('skip')
        ex = E.get('G:flagexitasap')
        pulled = g1(E, '$pulled')
        nd = g1(E, 'G:nexttodorun')
        ok = ex == fs(1) or (pulled == 0 and nd is not None and self.R < nd)
        self.site('todo:scan-skipped-only-if-not-pulled-and-not-due', None, ok,
                  'todo_do returns without scanning with trigger_pulled()=%s recent=%d nexttodorun=%s: a pulled trigger (or the periodic rescan) is ignored' % (pulled, self.R, nd), E)


def analyse_todo_skip(db, rep):
    prog = db.program('qmail-send')
    fn = prog.fn('todo_do', 'qmail-send.c')
    sl = db.unit('qmail-send.c').macro_int('SLEEP_TODO')
    if sl is None:
        raise AnalysisBroken('SLEEP_TODO not found')
    sites = {}
    n = {'skip': 0, 'readdir': 0}
    for nd in (900, 1000, 1001, 1100):
        for ex in (0, 1):
            H = TodoSkipHooks(sl)
            eng = Engine(db, prog, H)
            eng.run(fn, {'G:tododir': fs(0), 'G:flagexitasap': fs(ex), 'G:recent': fs(H.R), 'G:nexttodorun': fs(nd)})
            rep.count_states(eng.states, eng.transitions)
            for k, v in H.sites.items():
                if k.startswith('todo:scan-skipped') or k.startswith('todo:nexttodorun'):
                    if k not in sites or (sites[k][0] and not v[0]):
                        sites[k] = v
            for k in n:
                n[k] += H.counts.get(k, 0)
    if (n['skip'] < 1 or n['readdir'] < 1) and all(v[0] for v in sites.values()):
        raise AnalysisBroken('todo_do: skip/scan-start paths not explored (%s)' % n)
    return sites


# =============================================================================== del_dochan
class DelHooks(SendHooks):
    tracked = frozenset(['G:tododir', 'G:flagexitasap', 'G:dline', 'G:todoline', 'G:flagcleanup', 'G:concurrency', 'G:d', 'G:jo'])
    CONC = 2       # configured concurrency in the explored geometry
    JOB = 1        # every delivery slot of the explored geometry belongs to this job

    def __init__(self, dying=0, c=None):
        super().__init__()
        self.dying = dying      # the job's message has been in the queue too long
        self.chan = c

    def chan_of(self, E):
        return self.chan

    def materialize_split(self, E, path):
        if path.startswith('G:d[') and path.endswith('.used'):
            return [fs(0), fs(1)]
        return None

    def slot_ok(self, E, x, what):
        """the report's delivery number names a slot below concurrency[c] that is in use"""
        c = self.chan_of(E)
        b = g1(E, '$delbyte')
        num = b & 255 if isinstance(b, int) else None
        used = g1(E, 'G:d[%s][%s].used' % (c, num)) if num is not None else None
        ok = num is not None and 0 <= num < getattr(self, 'conc', self.CONC) and used == 1
        self.site('del:state-changes-only-for-an-in-range-delivery-slot-in-use', x, ok,
                  '%s for delivery number %s (concurrency %d) with used=%s: a forged or stale report changes a recipient\'s state' % (what, num, self.CONC, used), E)

    def prim_read(self, E, x, args):
        return [Outcome(ret=fs(-1), sets={'$r': fs(-1)}), Outcome(ret=fs(0), sets={'$r': fs(0)}), Outcome(ret=fs(7), sets={'$r': fs(7)})]

    def prim_spawndied(self, E, x, args):
        return [Outcome(ret=TOP)]

    def pipe_ok(self, E, x, what):
        """a read error or end of file on the report pipe changes no recipient's state"""
        r = g1(E, '$r')
        self.site('del:EOF-or-error-on-the-report-pipe-changes-nothing', x, r is None or r > 0,
                  '%s although read() on the report pipe returned %s: bytes left in the buffer from an earlier read are taken for a report' % (what, r), E)

    def prim_stralloc_append(self, E, x, args):
        return [Outcome(ret=fs(1))]

    prim_stralloc_cats = prim_stralloc_0 = prim_stralloc_append

    def prim_fmt_ulong(self, E, x, args):
        return [Outcome(ret=TOP)]

    def letter(self, E):
        c = self.chan_of(E)
        v = E.get('G:dline[%s].s[1]' % c)
        if v is TOP or len(v) != 1:
            return None
        return chr(next(iter(v))) if 0 < next(iter(v)) < 128 else '?'

    def prim_markdone(self, E, x, args):
        self.count('mark')
        self.pipe_ok(E, x, 'markdone()')
        self.slot_ok(E, x, 'markdone()')
        L0 = g1(E, '$letter')
        dying = self.dying
        ok = L0 in ('K', 'D') or (L0 == 'Z' and dying == 1)
        self.site('del:DONE-only-for-K-or-D-(Z-when-expired)', x, ok, 'markdone() for a report %r (flagdying=%s)' % (L0, dying), E)
        if L0 != 'K':
            self.site('del:bounce-recorded-before-DONE', x, g1(E, '$bounced', 0) == 1,
                      'recipient marked done for a %r report before its bounce text was appended: a crash in between loses the recipient silently' % L0, E)
        b_ = g1(E, '$delbyte')
        num_ = b_ & 255 if isinstance(b_, int) else None
        self.site('del:mark-position-is-the-delivery\'s-mpos', x, num_ is not None and g1v(args[2]) == 9000 + num_ and g1v(args[0]) == self.chan_of(E),
                  'markdone(channel %s, ..., position %s) for delivery %s whose recorded mark position is %s' % (g1v(args[0]), g1v(args[2]), num_, 9000 + num_ if num_ is not None else '?'), E)
        E.set('$marked', fs(min(g1(E, '$marked', 0) + 1, 2)))
        return [Outcome(ret=TOP, log='markdone')]

    def prim_addbounce(self, E, x, args):
        self.count('bounce')
        self.pipe_ok(E, x, 'addbounce()')
        self.slot_ok(E, x, 'addbounce()')
        L0 = g1(E, '$letter')
        dying = self.dying
        self.site('del:bounce-only-for-D-(Z-when-expired)', x, L0 == 'D' or (L0 == 'Z' and dying == 1), 'addbounce() for a report %r (flagdying=%s)' % (L0, dying), E)
        E.set('$bounced', fs(1))
        return [Outcome(ret=TOP, log='addbounce')]

    def prim_job_close(self, E, x, args):
        self.pipe_ok(E, x, 'job_close()')
        self.slot_ok(E, x, 'job_close()')
        L0 = g1(E, '$letter')
        dying = self.dying
        must_mark = L0 in ('K', 'D') or (L0 == 'Z' and dying == 1)
        self.site('del:K/D-reports-are-marked', x, (g1(E, '$marked', 0) == 1) == must_mark,
                  'report %r (flagdying=%s) handled with %d markdone() call(s)' % (L0, dying, g1(E, '$marked', 0)), E)
        self.site('del:numtodo-decremented-iff-marked', x, g1(E, '$dec', 0) == g1(E, '$marked', 0),
                  'numtodo decremented %d time(s), marked %d time(s)' % (g1(E, '$dec', 0), g1(E, '$marked', 0)), E)
        self.count('job_close')
        E.set('$closed', fs(1))
        return [Outcome(ret=TOP, log='job_close')]

    def prim_del_status(self, E, x, args):
        return [Outcome(ret=TOP)]

    def on_assign(self, E, x, path, val):
        if path and path.endswith('.numtodo'):
            self.pipe_ok(E, x, '--numtodo')
            self.slot_ok(E, x, '--numtodo')
            E.set('$dec', fs(min(g1(E, '$dec', 0) + 1, 2)))
        if path is None:
            return
        if path.endswith('.used') and val == fs(0):
            self.site('del:slot-freed-only-after-job_close', x, g1(E, '$closed', 0) == 1, 'delivery slot freed without job_close()', E)
            E.set('$freed', fs(min(g1(E, '$freed', 0) + 1, 3)))
        if path.startswith('G:concurrencyused['):
            E.set('$cdec', fs(min(g1(E, '$cdec', 0) + 1, 3)))
        if path.startswith('G:dline[') and path.endswith('.len') and val == fs(0):
            self.site('del:slot-release-and-counter-decrement-come-together', x, g1(E, '$freed', 0) == g1(E, '$cdec', 0) == g1(E, '$closed', 0),
                      'one report: %d slot(s) freed, concurrencyused changed %d time(s), %d job_close() call(s)' % (g1(E, '$freed', 0), g1(E, '$cdec', 0), g1(E, '$closed', 0)), E)
            # end of this report: reset the per-report monitors; the next report has the same letter
            for k in ('$marked', '$dec', '$bounced', '$closed', '$freed', '$cdec'):
                E.store.pop(k, None)
            L0 = g1(E, '$letter')
            if L0:
                E.set(path[:-4] + '.s[1]', fs(ord(L0)))

    def on_elem(self, E, x):
        pass


def analyse_del_dochan(db, rep):
    """explore with the report letter chosen up front (K, Z, D, other), channel 0 and 1"""
    prog = db.program('qmail-send')
    fn = prog.fn('del_dochan', 'qmail-send.c')
    sites = {}
    counts = {}
    for c in (0, 1):
        for letter in ('K', 'Z', 'D', 'x'):
            for delbyte, dying in ((0, 0), (1, 0), (2, 0), (-56, 0), (0, 1), (1, 1)):          # delivery numbers 0, 1 (in range), 2, 200 (out of range)
                H = DelHooks(dying, c)
                eng = Engine(db, prog, H, max_states=300000)
                # the letter, the delivery number and the age of the message are facts about the input
                st = {'%s::%s' % (eng.frame_id(fn), fn.params[0]): fs(c), 'G:dline[%d].s[1]' % c: fs(ord(letter)), '$letter': fs(letter),
                      'G:dline[%d].s[0]' % c: fs(delbyte), '$delbyte': fs(delbyte), 'G:concurrency[%d]' % c: fs(DelHooks.CONC),
                      'G:jo[%d].flagdying' % DelHooks.JOB: fs(dying), 'G:jo[%d].numtodo' % DelHooks.JOB: fs(3), 'G:jo[%d].id' % DelHooks.JOB: fs(77)}
                for i_ in range(DelHooks.CONC):
                    st['G:d[%d][%d].mpos' % (c, i_)] = fs(9000 + i_)       # each slot's recorded mark position is recognisable
                    st['G:d[%d][%d].j' % (c, i_)] = fs(DelHooks.JOB)
                eng.run(fn, st)
                rep.count_states(eng.states, eng.transitions)
                for k, v in H.sites.items():
                    if k not in sites or (sites[k][0] and not v[0]):
                        sites[k] = v
                for k, v in H.counts.items():
                    counts[k] = counts.get(k, 0) + v
    if counts.get('mark', 0) < 2 or counts.get('bounce', 0) < 1 or counts.get('job_close', 0) < 3:
        if all(v[0] for v in sites.values()):
            raise AnalysisBroken('del_dochan: markdone/addbounce/job_close not explored (%s)' % counts)
    # a channel with up to 255 slots: the delivery number is the report's first byte as 0..255 (a report for delivery 200 is acted on)
    for c in (0, 1):
        H = DelHooks(0, c)
        H.conc = 255
        eng = Engine(db, prog, H, max_states=300000)
        st = {'%s::%s' % (eng.frame_id(fn), fn.params[0]): fs(c), 'G:dline[%d].s[1]' % c: fs(ord('D')), '$letter': fs('D'), 'G:dline[%d].s[0]' % c: fs(200 - 256), '$delbyte': fs(200 - 256),
              'G:concurrency[%d]' % c: fs(255), 'G:jo[%d].flagdying' % DelHooks.JOB: fs(0), 'G:jo[%d].numtodo' % DelHooks.JOB: fs(3), 'G:jo[%d].id' % DelHooks.JOB: fs(77),
              'G:d[%d][200].used' % c: fs(1), 'G:d[%d][200].mpos' % c: fs(9200), 'G:d[%d][200].j' % c: fs(DelHooks.JOB)}
        eng.run(fn, st)
        rep.count_states(eng.states, eng.transitions)
        acted = H.counts.get('mark', 0) >= 1 and H.counts.get('bounce', 0) >= 1
        k = 'del:delivery-numbers-128..255-are-acted-on'
        if k not in sites or sites[k][0]:
            sites[k] = (acted, 'qmail-send.c:del_dochan', 'a D report for delivery number 200 (slot in use, concurrency 255) leads to %d addbounce() and %d markdone() call(s): the report byte must be read as 0..255, or failures of busy channels are never bounced' % (H.counts.get('bounce', 0), H.counts.get('mark', 0)), [])
        for k2, v2 in H.sites.items():
            if not v2[0] and (k2 not in sites or sites[k2][0]):
                sites[k2] = v2
    return sites


class ReportBufHooks(DelHooks):
    """del_dochan() with the report buffer already REPORTMAX bytes long: one more byte arrives"""
    def __init__(self, byte, rmax, c):
        super().__init__(0, c)
        self.byte = byte
        self.rmax = rmax
        self.c = c
        self.rows = []
        self.uses = []

    def site(self, *a, **k):
        pass

    def tracked_global(self, path):
        return True

    def precise_arith(self, path):
        return True

    def materialize(self, E, path):
        import re
        m = re.match(r'^G:dline\[(\d)\]\.s$', path)
        if m:
            return fs(('&', 'G:dline[%s].s[0]' % m.group(1)))
        if path == 'G:jo':
            return fs(('&', 'JO[0]'))
        return TOP

    def prim_read(self, E, x, args):
        bp = g1v(args[1])
        if not (isinstance(bp, tuple) and bp[0] == '&'):
            raise AnalysisBroken('del_dochan: read() buffer is not an object address')
        base = bp[1] if bp[1].endswith(']') else bp[1] + '[0]'
        return [Outcome(ret=fs(1), sets={base: fs(self.byte)})]

    def prim_stralloc_append(self, E, x, args):
        sa, bp = g1v(args[0]), g1v(args[1])
        if not (isinstance(sa, tuple) and sa[0] == '&'):
            return [Outcome(ret=fs(1))]
        ln = g1(E, sa[1] + '.len')
        b = g1(E, bp[1]) if isinstance(bp, tuple) and bp[0] == '&' else None
        if not isinstance(ln, int):
            return [Outcome(ret=fs(1))]
        return [Outcome(ret=fs(1), sets={'%s.s[%d]' % (sa[1], ln): fs(b) if b is not None else TOP, sa[1] + '.len': fs(ln + 1)})]

    def _use(self, E, x, args):
        c = self.c
        ln = g1(E, 'G:dline[%s].len' % c)
        nul = [k for k in range(max(0, (ln or 0) - 2), (ln or 0) + 1) if g1(E, 'G:dline[%s].s[%d]' % (c, k)) == 0] if isinstance(ln, int) else []
        self.uses.append((x.callee, ln, bool(nul), E.trace.list()))
        return [Outcome(ret=TOP)]

    prim_logsafe = _use

    def prim_markdone(self, E, x, args):
        return [Outcome(ret=TOP)]

    def prim_addbounce(self, E, x, args):
        return self._use(E, x, args)

    def prim_job_close(self, E, x, args):
        return [Outcome(ret=TOP)]

    def on_assign(self, E, x, path, val):
        pass

    def on_return(self, E, fn, val):
        if fn.name == 'del_dochan':
            self.rows.append((g1(E, 'G:dline[%s].len' % self.c), E.trace.list()))


def analyse_report_buffer(db, rep):
    prog = db.program('qmail-send')
    fn = prog.fn('del_dochan', 'qmail-send.c')
    rmax = db.unit('qmail-send.c').macro_int('REPORTMAX')
    if rmax is None:
        raise AnalysisBroken('REPORTMAX is not an integer constant')
    bad = {}
    n = 0
    for c in (0, 1):
        for byte in (ord('x'), 0):
            for start in (rmax, rmax - 1, 5):
                H = ReportBufHooks(byte, rmax, c)
                eng = Engine(db, prog, H)
                st = {'%s::%s' % (eng.frame_id(fn), fn.params[0]): fs(c), 'G:dline[%d].len' % c: fs(start), 'G:dline[%d].s[0]' % c: fs(0), 'G:dline[%d].s[1]' % c: fs(ord('K')),
                      'G:concurrency[%d]' % c: fs(2), 'G:d[%d][0].used' % c: fs(1), 'G:d[%d][0].j' % c: fs(1), 'G:d[%d][0].mpos' % c: fs(9000), 'JO[1].flagdying': fs(0), 'JO[1].numtodo': fs(1)}
                eng.run(fn, st)
                rep.count_states(eng.states, eng.transitions)
                for ln, tr in H.rows:
                    n += 1
                    if byte != 0 and not (isinstance(ln, int) and ln == min(start + 1, rmax)):
                        bad.setdefault('del:report-clamped-to-REPORTMAX', ('a report buffer of %d bytes that receives one more byte ends with length %s (documented: grows by one, never beyond REPORTMAX = %d)' % (start, ln, rmax), tr))
                    if byte == 0 and ln != 0:
                        bad.setdefault('del:report-buffer-reset-after-report', ('after a complete report the buffer length is %s (documented 0): the next report would be glued to this one' % ln, tr))
                if byte == 0:
                    if not H.uses:
                        bad.setdefault('del:report-text-is-NUL-terminated-inside-the-buffer', ('the report text of a %d-byte report is never used' % start, []))
                    for callee, ln, nul, tr in H.uses:
                        if not nul:
                            bad.setdefault('del:report-text-is-NUL-terminated-inside-the-buffer',
                                           ('%s() is handed the text of a report that filled the buffer (length %s) with no NUL stored at its end: the text runs on into whatever follows in memory' % (callee, ln), tr))
    if n < 8 and not bad:
        raise AnalysisBroken('del_dochan: report buffer scenarios not explored (%d)' % n)
    return {k: (k not in bad, 'qmail-send.c:del_dochan', bad[k][0] if k in bad else '', bad[k][1] if k in bad else [])
            for k in ('del:report-clamped-to-REPORTMAX', 'del:report-buffer-reset-after-report', 'del:report-text-is-NUL-terminated-inside-the-buffer')}


# =============================================================================== del_start / del_avail
class DelStartHooks(SendHooks):
    """del_start(j, mpos, recip) over a two-slot table: which slot is taken and what is recorded in it"""
    CONC = 2

    def __init__(self):
        super().__init__()
        self.ends = []

    def site(self, *a, **k):
        pass

    def tracked_global(self, path):
        return True

    def precise_arith(self, path):
        return True

    def materialize(self, E, path):
        import re
        if path == 'G:jo':
            return fs(('&', 'JO[0]'))
        m = re.match(r'^G:d\[(\d)\]$', path)
        if m:
            return fs(('&', 'G:d[%s][0]' % m.group(1)))        # the channel's slot table, when it is taken as a pointer
        if re.match(r'^G:comm_buf\[\d\]\.s$', path):
            return fs(('&', 'CB[0]'))
        return TOP

    def materialize_split(self, E, path):
        import re
        if re.match(r'^G:d\[\d\]\[\d+\]\.used$', path):
            return [fs(0), fs(1)]
        if re.match(r'^G:flagspawnalive\[\d\]$', path):
            return [fs(0), fs(1)]
        if re.match(r'^G:comm_buf\[\d\]\.len$', path):
            return [fs(0), fs(7)]                               # the request buffer to the spawner is empty / still holds a request
        return None

    def _sa(self, E, x, args):
        return [Outcome(ret=fs(0)), Outcome(ret=fs(1))]

    prim_stralloc_copys = prim_stralloc_append = prim_stralloc_0 = _sa

    def prim_nomem(self, E, x, args):
        return [Outcome(ret=TOP)]

    def prim_comm_write(self, E, x, args):
        E.set('$announce', fs((g1v(args[0]), g1v(args[1]), g1v(args[2]))))
        return [Outcome(ret=TOP)]

    def _n(self, E, x, args):
        return [Outcome(ret=TOP)]

    prim_fmt_ulong = prim_qslog2 = prim_log1 = prim_log2 = prim_log3 = prim_logsafe = prim_del_status = _n

    def on_return(self, E, fn, val):
        if fn.name == 'del_start':
            self.ends.append((dict((k, g1v(v)) for k, v in E.store.items()), E.trace.list()))


def analyse_del_start(db, rep):
    prog = db.program('qmail-send')
    fn = prog.fn('del_start', 'qmail-send.c')
    bad = {}
    n_taken = n_none = 0
    for ch in (0, 1):
        H = DelStartHooks()
        eng = Engine(db, prog, H)
        fid = eng.frame_id(fn)
        st = {'%s::%s' % (fid, fn.params[0]): fs(1), '%s::%s' % (fid, fn.params[1]): fs(4242), '%s::%s' % (fid, fn.params[2]): fs(('&', 'RCP[0]')),
              'JO[1].channel': fs(ch), 'JO[1].refs': fs(3), 'JO[1].id': fs(77), 'G:concurrency[0]': fs(H.CONC), 'G:concurrency[1]': fs(H.CONC),
              'G:concurrencyused[0]': fs(1), 'G:concurrencyused[1]': fs(1), 'G:masterdelid': fs(500)}
        eng.run(fn, st)
        rep.count_states(eng.states, eng.transitions)
        for store, tr in H.ends:
            free0 = {i: store.get('G:d[%d][%d].used' % (ch, i)) for i in range(H.CONC)}
            ann = store.get('$announce')
            cu = store.get('G:concurrencyused[%d]' % ch)
            refs = store.get('JO[1].refs')
            # which slot ended up newly marked: the announce event names it
            if ann is None:
                n_none += 1
                if cu != 1 or refs != 3:
                    bad.setdefault('ds:no-slot-no-effect', ('no delivery was announced but concurrencyused=%s job refs=%s' % (cu, refs), tr))
                continue
            n_taken += 1
            c_, i_, id_ = ann
            okslot = c_ == ch and isinstance(i_, int) and 0 <= i_ < H.CONC
            if not okslot:
                bad.setdefault('ds:announced-delivery-number-is-a-slot-below-concurrency', ('delivery announced as (channel %s, number %s) with concurrency %d' % (c_, i_, H.CONC), tr))
                continue
            pre = 'G:d[%d][%d]' % (ch, i_)
            if store.get(pre + '.used') != 1 or store.get(pre + '.mpos') != 4242 or store.get(pre + '.j') != 1:
                bad.setdefault('ds:slot-records-job-and-mark-position', ('slot %d ends as used=%s mpos=%s j=%s (documented: 1, the mpos argument, the job)' % (i_, store.get(pre + '.used'), store.get(pre + '.mpos'), store.get(pre + '.j')), tr))
            if cu != 2 or refs != 4:
                bad.setdefault('ds:slot-taken-with-counter-and-reference', ('a slot was taken and concurrencyused went 1 -> %s, job refs 3 -> %s' % (cu, refs), tr))
            if id_ != 77:
                bad.setdefault('ds:announced-message-is-the-job-message', ('announced message id %s for job message 77' % id_, tr))
            # it must have been free: the path read used == 0 for it before marking; lower slots were in use
            if any(store.get('G:d[%d][%d].used' % (ch, k)) == 0 for k in range(i_)):
                pass
    if (n_taken < 2 or n_none < 2) and not bad:
        raise AnalysisBroken('del_start: %d taken / %d not-taken ends explored' % (n_taken, n_none))
    out = {}
    for k in ('ds:no-slot-no-effect', 'ds:announced-delivery-number-is-a-slot-below-concurrency', 'ds:slot-records-job-and-mark-position',
              'ds:slot-taken-with-counter-and-reference', 'ds:announced-message-is-the-job-message'):
        out[k] = (k not in bad, 'qmail-send.c:del_start', bad[k][0] if k in bad else '', bad[k][1] if k in bad else [])
    # a slot in use is never taken: run with both slots in use
    H = DelStartHooks()
    eng = Engine(db, prog, H)
    fid = eng.frame_id(fn)
    st = {'%s::%s' % (fid, fn.params[0]): fs(1), '%s::%s' % (fid, fn.params[1]): fs(4242), '%s::%s' % (fid, fn.params[2]): fs(('&', 'RCP[0]')),
          'JO[1].channel': fs(0), 'JO[1].refs': fs(3), 'JO[1].id': fs(77), 'G:concurrency[0]': fs(2), 'G:concurrencyused[0]': fs(2),
          'G:d[0][0].used': fs(1), 'G:d[0][1].used': fs(1), 'G:d[0][0].mpos': fs(1), 'G:d[0][1].mpos': fs(2), 'G:flagspawnalive[0]': fs(1), 'G:comm_buf[0].len': fs(0)}
    eng.run(fn, st)
    full_ok = bool(H.ends) and all(s_.get('$announce') is None and s_.get('G:d[0][0].mpos') == 1 and s_.get('G:d[0][1].mpos') == 2 and s_.get('G:concurrencyused[0]') == 2 for s_, _ in H.ends)
    out['ds:full-table-starts-nothing'] = (full_ok, 'qmail-send.c:del_start', 'with every slot below concurrency in use del_start must change nothing', H.ends[0][1] if H.ends and not full_ok else [])
    # only a free slot: slot 0 in use, slot 1 free -> slot 1
    H = DelStartHooks()
    eng = Engine(db, prog, H)
    st = dict(st)
    st.update({'G:d[0][1].used': fs(0), 'G:concurrencyused[0]': fs(1)})
    eng.run(fn, st)
    okfree = bool(H.ends) and all(s_.get('$announce') is None or (s_.get('$announce')[1] == 1 and s_.get('G:d[0][0].mpos') == 1) for s_, _ in H.ends) and any(s_.get('$announce') is not None for s_, _ in H.ends)
    out['ds:a-slot-in-use-is-never-taken'] = (okfree, 'qmail-send.c:del_start', 'slot 0 in use, slot 1 free: the delivery must go to slot 1 and leave slot 0 alone', [])
    # del_canexit: the daemon may leave only when no live spawner has a delivery in flight
    dc = prog.fn('del_canexit', 'qmail-send.c')
    badx = []
    for alive in ((1, 1), (1, 0), (0, 1), (0, 0)):
        for used in ((0, 0), (1, 0), (0, 1), (2, 3)):
            H3 = DelStartHooks()
            res = []
            H3.on_return = lambda E, f, v, res=res: res.append(v) if f.name == 'del_canexit' else None
            H3.materialize_split = lambda E, path: None
            eng = Engine(db, prog, H3)
            eng.run(dc, {'G:flagspawnalive[0]': fs(alive[0]), 'G:flagspawnalive[1]': fs(alive[1]), 'G:concurrencyused[0]': fs(used[0]), 'G:concurrencyused[1]': fs(used[1])})
            want = 0 if any(alive[c_] and used[c_] for c_ in (0, 1)) else 1
            got = sorted({(1 if g1v(v) else 0) if g1v(v) is not None else '?' for v in res})
            if got != [want]:
                badx.append((alive, used, got, want))
    out['ds:del_canexit-iff-no-live-channel-has-a-delivery-in-flight'] = (not badx, 'qmail-send.c:del_canexit',
        '(spawners alive, deliveries in flight per channel, result, documented): %s; leaving with a delivery in flight loses its report, and the recipient is tried again after the restart' % badx[:3], [])
    # del_avail
    da = prog.fn('del_avail', 'qmail-send.c')
    rows = []
    for used in (0, 1, 2, 3):
        H2 = DelStartHooks()
        res = []
        H2.on_return = lambda E, f, v, res=res: res.append(v) if f.name == 'del_avail' else None
        eng = Engine(db, prog, H2)
        fid = eng.frame_id(da)
        eng.run(da, {'%s::%s' % (fid, da.params[0]): fs(0), 'G:flagspawnalive[0]': fs(1), 'G:concurrency[0]': fs(2), 'G:concurrencyused[0]': fs(used), 'G:comm_buf[0].len': fs(0)})
        vals = sorted({(1 if g1v(v) else 0) if g1v(v) is not None else '?' for v in res})
        rows.append((used, vals))
    okav = all(vals == [1 if used < 2 else 0] for used, vals in rows)
    out['ds:del_avail-iff-concurrencyused<concurrency'] = (okav, 'qmail-send.c:del_avail', 'del_avail(c) with concurrency 2 and spawner alive, for concurrencyused 0..3: %s' % rows, [])
    return out


# =============================================================================== pass_dochan
class PassHooks(SendHooks):
    tracked = frozenset(['G:pass', 'G:flagexitasap', 'G:jo'])

    def __init__(self, c, free_mpos=False):
        super().__init__()
        self.c = c
        self.ends = []
        self.free_mpos = free_mpos       # leave the mark offset of a closed pass undetermined (the invariant runs set it themselves)

    def prim_job_avail(self, E, x, args):
        return [Outcome(ret=fs(0)), Outcome(ret=fs(1))]

    def prim_prioq_min(self, E, x, args):
        q = x.args[0].strip().args[0].src()
        return [Outcome(ret=fs(0)), Outcome(ret=fs(1), sets={'$minq': fs(q)}, havoc=self._arg_roots(E, x, args)[1:])]

    def prim_prioq_delmin(self, E, x, args):
        q = x.args[0].strip().args[0].src()
        self.count('delmin')
        self.site('pass:delmin-on-the-queue-just-inspected', x, g1(E, '$minq') == q, 'prioq_delmin(%s) after prioq_min(%s)' % (q, g1(E, '$minq')), E)
        self.site('pass:entry-taken-only-when-due', x, g1(E, '$due') == 1, 'the entry is removed although pe.dt > recent was not excluded on this path', E)
        E.set('$taken', fs(q))
        return [Outcome(ret=TOP, log='prioq_delmin(%s)' % q)]

    def on_branch(self, E, cond, truth):
        c = cond.strip()
        if c.k == 'bin' and c.op in ('>', '<=', '<', '>='):
            names = {c.args[0].src(), c.args[1].src()}
            if any(n.endswith('pe.dt') for n in names) and 'recent' in names:
                # evaluate "due" = not (pe.dt > recent)
                lhs_dt = c.args[0].src().endswith('pe.dt')
                op = c.op if lhs_dt else {'>': '<', '<': '>', '>=': '<=', '<=': '>='}[c.op]
                # truth of (dt op recent); due means dt <= recent
                future_excluded = (op == '>' and truth is False) or (op == '<=' and truth is True)
                if future_excluded:
                    E.set('$due', fs(1))

    def prim_open_read(self, E, x, args):
        role = self.role_of(E, x.args[0])
        self.site('pass:opens-the-channel-file-of-its-channel', x, role == ('chan', self.c), 'pass_dochan(%d) opens %s' % (self.c, role), E)
        return [Outcome(ret=fs(('fd', role))), Outcome(ret=fs(-1))]

    def prim_getinfo(self, E, x, args):
        return [Outcome(ret=fs(0)), Outcome(ret=fs(1))]

    JOB = 1
    NUMTODO0 = 5
    MPOS0 = 4000
    RECLEN = 17

    def precise_arith(self, path):
        return True

    def materialize(self, E, path):
        c = self.c
        if path == 'G:pass[%d].j' % c:
            return fs(self.JOB)
        if path == 'G:pass[%d].mpos' % c and not self.free_mpos:
            return fs(self.MPOS0)           # a pass that is already open has marked its way to some offset
        if path == 'G:jo[%d].numtodo' % self.JOB:
            return fs(self.NUMTODO0)
        return TOP

    def prim_job_open(self, E, x, args):
        self.count('job_open')
        E.set('$owner', fs('job'))
        return [Outcome(ret=fs(self.JOB), log='job_open')]

    def prim_nextretry(self, E, x, args):
        return [Outcome(ret=TOP)]

    def prim_stralloc_copy(self, E, x, args):
        return [Outcome(ret=fs(1))]

    def prim_substdio_fdbuf(self, E, x, args):
        return [Outcome(ret=TOP)]

    def prim_del_avail(self, E, x, args):
        return [Outcome(ret=fs(0)), Outcome(ret=fs(1), sets={'$delavail': fs(1)})]

    def prim_getln(self, E, x, args):
        self.count('getln')
        if g1(E, '$owner') == 'job':      # the first record of a pass that starts in this call: where will its mark go?
            E.set('$mp0', fs('zero' if E.get('G:pass[%d].mpos' % self.c) == fs(0) else 'unknown'))
        self.site('pass:record-read-only-when-a-delivery-slot-is-free', x, g1(E, '$delavail', 0) == 1,
                  'a recipient record is read although del_avail(c) was not established: the record would be skipped without a delivery attempt', E)
        mp = None
        if args[2] is not TOP and len(args[2]) == 1:
            (a,) = args[2]
            if isinstance(a, tuple) and a[0] == '&':
                mp = a[1]
        lp = None
        if args[1] is not TOP and len(args[1]) == 1:
            (a,) = args[1]
            if isinstance(a, tuple) and a[0] == '&':
                lp = a[1]
        if mp is None or lp is None:
            raise AnalysisBroken('pass_dochan: getln shape changed')
        at = E.get('G:pass[%d].mpos' % self.c)
        if at is None or at is TOP:
            at = self.materialize(E, 'G:pass[%d].mpos' % self.c)
        nt = E.get('G:jo[%d].numtodo' % self.JOB)
        common = {'$mpget': at, '$nt0': nt if nt not in (None, TOP) else fs(self.NUMTODO0)}
        outs = [Outcome(ret=fs(-1), sets=dict(common, **{'$rec': fs('ioerr')}), log='getln fails'),
                Outcome(ret=fs(0), sets=dict(common, **{mp: fs(0), lp + '.len': fs(0), '$rec': fs('eof')}), log='channel file: end')]
        for name, vals in (('T', fs(ord('T'))), ('D', fs(ord('D'))), ('other', BYTE - {ord('T'), ord('D')})):
            outs.append(Outcome(ret=fs(0), sets=dict(common, **{mp: fs(1), lp + '.s[0]': vals, lp + '.len': fs(self.RECLEN), '$rec': fs(name)}), log='channel record %s (%d bytes)' % (name, self.RECLEN)))
        return outs

    def trackable_extra(self, path):
        return False

    def on_assign(self, E, x, path, val):
        if path and path.endswith('.flaghiteof') and val == fs(1):
            E.set('$hiteof', fs(1))

    def _inc(self, E):
        a, b = g1(E, 'G:jo[%d].numtodo' % self.JOB, self.NUMTODO0), g1(E, '$nt0', self.NUMTODO0)
        return a - b if isinstance(a, int) and isinstance(b, int) else None

    def _adv(self, E):
        a, b = g1(E, 'G:pass[%d].mpos' % self.c), g1(E, '$mpget')
        return a - b if isinstance(a, int) and isinstance(b, int) else None

    def prim_del_start(self, E, x, args):
        self.count('del_start')
        self.site('pass:delivery-only-for-T-records', x, g1(E, '$rec') == 'T', 'del_start() for a %s record: a finished recipient would be delivered again' % g1(E, '$rec'), E)
        self.site('pass:numtodo-counted-before-del_start', x, self._inc(E) == 1, 'del_start() with numtodo incremented %s time(s) before it' % self._inc(E), E)
        mp, at = g1v(args[1]), g1(E, '$mpget')
        self.site('pass:mark-position-is-the-start-of-this-record', x, isinstance(mp, int) and mp == at,
                  'del_start() receives the mark position %s for a record that starts at offset %s: the D mark would hit another record' % (mp, at), E)
        E.set('$started', fs(min(g1(E, '$started', 0) + 1, 2)))
        return [Outcome(ret=TOP, log='del_start')]

    def prim_job_close(self, E, x, args):
        E.set('$closed', fs(1))
        return [Outcome(ret=TOP, log='job_close')]

    def on_return(self, E, fn, val):
        if fn.name == 'pass_dochan':
            idv, mp = E.get('G:pass[%d].id' % self.c), E.get('G:pass[%d].mpos' % self.c)
            started = g1(E, '$owner') == 'job'
            mp_start = mp
            if started and g1(E, '$mp0') is not None:
                mp_start = fs(0) if g1(E, '$mp0') == 'zero' else TOP
            self.ends.append((started, idv, mp, mp_start, E.trace.list()))
        taken = g1(E, '$taken')
        if taken:
            ok = g1(E, '$owner') == 'job' or g1(E, '$ins:%s' % taken, 0) >= 1
            self.site('pass:removed-entry-is-handed-to-a-job-or-reinserted', None, ok,
                      'an entry taken off %s is neither owned by a job nor re-inserted: the message would never be tried again' % taken, E)
        rec = g1(E, '$rec')
        if fn.name != 'pass_dochan':
            return
        if rec == 'T':
            self.site('pass:T-record-starts-one-delivery-attempt', None, g1(E, '$started', 0) == 1 and self._inc(E) == 1, 'T record: %d del_start, %s numtodo increments' % (g1(E, '$started', 0), self._inc(E)), E)
        if rec in ('T', 'D'):
            self.site('pass:mpos-advances-exactly-once-per-record', None, self._adv(E) not in (0, None) and self._adv(E) <= self.RECLEN,
                      '%s record of %d bytes at offset %s: the mark offset ends at %s' % (rec, self.RECLEN, g1(E, '$mpget'), g1(E, 'G:pass[%d].mpos' % self.c)), E)
            self.site('pass:mpos-advances-by-the-record-length', None, self._adv(E) == self.RECLEN,
                      '%s record of %d bytes at offset %s: the mark offset ends at %s' % (rec, self.RECLEN, g1(E, '$mpget'), g1(E, 'G:pass[%d].mpos' % self.c)), E)
        if rec == 'D':
            self.site('pass:D-record-has-no-effect', None, g1(E, '$started', 0) == 0 and self._inc(E) == 0 and g1(E, '$closed', 0) == 0, 'D record triggers an action', E)
        if rec in ('other', 'ioerr', 'eof'):
            self.site('pass:pass-ends-with-job_close', None, g1(E, '$closed', 0) == 1 and g1(E, '$started', 0) == 0, 'pass ended (%s) without job_close or with a delivery' % rec, E)
        if rec == 'eof':
            self.site('pass:flaghiteof-only-at-end-of-file', None, g1(E, '$hiteof', 0) == 1, 'end of channel file without flaghiteof = 1', E)
        elif g1(E, '$hiteof', 0) == 1:
            self.site('pass:flaghiteof-only-at-end-of-file', None, False, 'flaghiteof set although the file was not read to its end (%s): remaining recipients would be dropped' % rec, E)


def analyse_pass_dochan(db, rep):
    prog = db.program('qmail-send')
    fn = prog.fn('pass_dochan', 'qmail-send.c')
    sites, counts = {}, {}
    for c in (0, 1):
        H = PassHooks(c)
        eng = Engine(db, prog, H)
        eng.run(fn, {'%s::%s' % (eng.frame_id(fn), fn.params[0]): fs(c)})
        rep.count_states(eng.states, eng.transitions)
        for k, v in H.sites.items():
            if k not in sites or (sites[k][0] and not v[0]):
                sites[k] = v
        for k, v in H.counts.items():
            counts[k] = counts.get(k, 0) + v
    if counts.get('delmin', 0) < 2 or counts.get('getln', 0) < 2 or counts.get('del_start', 0) < 2:
        if all(v[0] for v in sites.values()):
            raise AnalysisBroken('pass_dochan: events not explored (%s)' % counts)
    # a new pass must start marking at offset 0 of the channel file: either it sets mpos itself, or "no pass open => mpos == 0"
    # is an invariant (established by pass_init, preserved by every way a pass ends)
    def starts(assume_inv):
        bad_start = bad_inv = None
        n = 0
        for c in (0, 1):
            for preset in ({'G:pass[%d].id' % c: fs(0)}, {'G:pass[%d].id' % c: fs(5)}):
                st = dict(preset)
                if assume_inv and preset['G:pass[%d].id' % c] == fs(0):
                    st['G:pass[%d].mpos' % c] = fs(0)
                H = PassHooks(c, free_mpos=True)
                H.site = lambda *a, **k: None
                eng = Engine(db, prog, H)
                st['%s::%s' % (eng.frame_id(fn), fn.params[0])] = fs(c)
                eng.run(fn, st)
                rep.count_states(eng.states, eng.transitions)
                for started, idv, mp, mp_start, tr in H.ends:
                    if started:
                        n += 1
                        if mp_start != fs(0) and bad_start is None:
                            bad_start = tr
                    if idv == fs(0) and mp != fs(0) and bad_inv is None:
                        bad_inv = tr
        return n, bad_start, bad_inv
    n1, bs1, _ = starts(False)
    if n1 < 2:
        raise AnalysisBroken('pass_dochan: pass starts not explored')
    if bs1 is None:
        sites['pass:a-new-pass-marks-from-offset-0'] = (True, 'qmail-send.c:pass_dochan', 'mpos is reset when the channel file is opened', [])
    else:
        n2, bs2, bi2 = starts(True)
        pi = prog.fn('pass_init', 'qmail-send.c')
        H = PassHooks(0, free_mpos=True)
        H.site = lambda *a, **k: None
        eng = Engine(db, prog, H)
        fin = []
        H.on_return = lambda E, f, v: fin.append([E.get('G:pass[%d].mpos' % c_) for c_ in (0, 1)]) if f.name == 'pass_init' else None
        eng.run(pi, {})
        init_ok = bool(fin) and all(v == fs(0) for row in fin for v in row)
        ok = bs2 is None and bi2 is None and init_ok
        why = ('a pass that starts does not reset the mark offset, and "no pass open => mpos == 0" is not an invariant: %s; the D mark of the next pass would be written onto another recipient\'s record' %
               ('pass_init() does not establish it' if not init_ok else 'this path ends a pass with mpos != 0'))
        sites['pass:a-new-pass-marks-from-offset-0'] = (ok, 'qmail-send.c:pass_dochan', why, (bi2 or bs2 or bs1) if not ok else [])
    return sites


class PassStartHooks(PassHooks):
    """pass_dochan(c) from "no pass open" with a due entry: what the job that is opened records"""
    def __init__(self, c):
        super().__init__(c)
        self.rows = []
        self.nr = []

    def site(self, *a, **k):
        pass

    def tracked_global(self, path):
        return True

    def precise_arith(self, path):
        return True

    def materialize(self, E, path):
        if path == 'G:jo':
            return fs(('&', 'JO[0]'))
        return TOP

    def prim_job_avail(self, E, x, args):
        return [Outcome(ret=fs(1))]

    def prim_prioq_min(self, E, x, args):
        pe = g1v(args[1])
        q = x.args[0].strip().args[0].src() if x.args[0].strip().k == 'un' else x.args[0].src()
        return [Outcome(ret=fs(1), sets={pe[1] + '.dt': fs(g1(E, 'G:recent') - 1), pe[1] + '.id': fs(77), '$minq': fs(q)})]

    def prim_prioq_delmin(self, E, x, args):
        return [Outcome(ret=TOP)]

    def prim_open_read(self, E, x, args):
        return [Outcome(ret=fs(('fd', 'chan')))]

    def prim_getinfo(self, E, x, args):
        bp = g1v(args[1])
        if not (isinstance(bp, tuple) and bp[0] == '&'):
            raise AnalysisBroken('pass_dochan: getinfo() is not handed the address of the birth time')
        return [Outcome(ret=fs(1), sets={bp[1]: fs(1000), '$birthvar': fs(bp[1])})]

    def prim_job_open(self, E, x, args):
        E.set('$owner', fs('job'))
        E.set('$jobargs', fs((g1v(args[0]), g1v(args[1]))))
        return [Outcome(ret=fs(1))]

    def prim_nextretry(self, E, x, args):
        self.nr.append((g1v(args[0]), g1v(args[1])))
        return [Outcome(ret=fs(5555))]

    def prim_stralloc_copy(self, E, x, args):
        return [Outcome(ret=fs(1))]

    def prim_del_avail(self, E, x, args):
        return [Outcome(ret=fs(0))]

    def on_return(self, E, fn, val):
        if fn.name == 'pass_dochan' and g1(E, '$owner') == 'job':
            self.rows.append((g1(E, 'G:recent'), g1(E, 'JO[1].retry'), g1(E, 'JO[1].flagdying'), g1(E, '$jobargs'), E.trace.list()))


def control_int_cell(db, fname, default):
    """the object control_readint() fills from the named control file (by the call site's arguments, so a renamed variable is still found)"""
    prog = db.program('qmail-send')
    for f_ in prog.functions():
        if f_.unit != 'qmail-send.c':
            continue
        for c_ in f_.calls('control_readint'):
            if len(c_.args) > 1 and c_.args[1] is not None and c_.args[1].string == fname and c_.args[0] is not None:
                t = c_.args[0].strip()
                while t is not None and t.k in ('un', 'cast') and t.args:
                    t = t.args[0].strip()
                if t is not None and t.path():
                    return t.path()
    return default


def analyse_pass_start(db, rep):
    prog = db.program('qmail-send')
    life = control_int_cell(db, 'control/queuelifetime', 'G:lifetime')
    fn = prog.fn('pass_dochan', 'qmail-send.c')
    bad = {}
    n = 0
    for c in (0, 1):
        for recent in (1050, 1100, 1101, 5000):
            H = PassStartHooks(c)
            eng = Engine(db, prog, H)
            eng.run(fn, {'%s::%s' % (eng.frame_id(fn), fn.params[0]): fs(c), 'G:pass[%d].id' % c: fs(0), 'G:flagexitasap': fs(0), 'G:recent': fs(recent), life: fs(100)})
            rep.count_states(eng.states, eng.transitions)
            for rc, retry, dying, jargs, tr in H.rows:
                n += 1
                if retry != 5555 or not H.nr or any(a != (1000, c) for a in H.nr):
                    bad.setdefault('pass:job-retry-time=nextretry(birth-from-the-info-file,channel)',
                                   ('the job records retry=%s; nextretry() was called with %s (documented: nextretry(birth read by getinfo = 1000, channel %d))' % (retry, H.nr, c), tr))
                if dying != (1 if rc > 1100 else 0):
                    bad.setdefault('pass:flagdying-iff-age>lifetime', ('birth 1000, lifetime 100, now %d: the job records flagdying=%s (documented: now > birth + lifetime)' % (rc, dying), tr))
                if jargs != (77, c):
                    bad.setdefault('pass:job-opened-for-the-entry-taken', ('job_open%s for entry 77 of channel %d' % (jargs, c), tr))
    if n < 8 and not bad:
        raise AnalysisBroken('pass_dochan: %d pass starts explored' % n)
    return {k: (k not in bad, 'qmail-send.c:pass_dochan', bad[k][0] if k in bad else '', bad[k][1] if k in bad else [])
            for k in ('pass:job-retry-time=nextretry(birth-from-the-info-file,channel)', 'pass:flagdying-iff-age>lifetime', 'pass:job-opened-for-the-entry-taken')}


# =============================================================================== job_close
class JobCloseHooks(SendHooks):
    def on_branch(self, E, cond, truth):
        from qv.lib import branch_zero_test
        # the reference count after its decrement
        has_dec = any(y.k == 'un' and y.op in ('pre--', 'post--') and y.args[0].src().endswith('refs') for y in cond.walk())
        if has_dec:
            c = cond.strip()
            # (0 < --refs) / (--refs > 0) / !(--refs): evaluate with the decremented value 0 and 1
            from qv.lib import _cmp_parts
            p = _cmp_parts(cond)
            if p is not None:
                v, f = p
                if f(0) == truth and f(1) != truth:
                    E.set('$refs0', fs(1))
                elif f(1) == truth and f(0) != truth:
                    E.set('$refs0', fs(0))
        z = branch_zero_test(cond, truth, lambda v: (v.path() or v.src()).endswith('flaghiteof'))
        if z:
            E.set('$hiteof', fs(0 if z == 'zero' else 1))
        z = branch_zero_test(cond, truth, lambda v: (v.path() or v.src()).endswith('numtodo'))
        if z:
            E.set('$nomore', fs(1 if z == 'zero' else 0))

    def prim_unlink(self, E, x, args):
        role = self.role_of(E, x.args[0])
        self.count('unlink')
        ok = isinstance(role, tuple) and role[0] == 'chan' and g1(E, '$refs0') == 1 and g1(E, '$hiteof') == 1 and g1(E, '$nomore') == 1
        self.site('jc:channel-file-removed-only-when-read-to-EOF-and-nothing-outstanding', x, ok,
                  'unlink(%s) with refs-reached-0=%s flaghiteof=%s numtodo==0:%s' % (role, g1(E, '$refs0'), g1(E, '$hiteof'), g1(E, '$nomore')), E)
        return [Outcome(ret=fs(0), sets={'$unl': fs(1)}), Outcome(ret=fs(-1), sets={'$unl': fs(0)})]

    def on_return(self, E, fn, val):
        if g1(E, '$refs0') != 1:
            return
        n = sum(g1(E, k, 0) for k in list(E.store) if k.startswith('$ins:'))
        more = any(g1(E, k) == 'exists' for k in list(E.store) if k.startswith('$stat:'))
        self.site('jc:job-ends-in-exactly-one-of-pqdone/pqchan/more-channels', None, n == 1 or (n == 0 and more and g1(E, '$unl') == 1),
                  'job_close with refs 0 returns after %d queue insert(s), other-channel-exists=%s' % (n, more), E)
        if g1(E, '$ins:pqdone', 0):
            self.site('jc:pqdone-only-after-own-channel-file-removed', None, g1(E, '$unl') == 1, 'message moved to pqdone although its channel file was not removed', E)


class JobGuardHooks(JobCloseHooks):
    """job_close(1) over concrete job records: when is the channel file removed, where does the message go"""
    def __init__(self):
        super().__init__()
        self.unl = []
        self.ins = []

    def site(self, *a, **k):
        pass

    def on_branch(self, E, cond, truth):
        pass

    def tracked_global(self, path):
        return True

    def precise_arith(self, path):
        return True

    def materialize(self, E, path):
        if path == 'G:jo':
            return fs(('&', 'JO[0]'))
        return TOP

    def prim_now(self, E, x, args):
        return [Outcome(ret=fs(9000))]

    def prim_unlink(self, E, x, args):
        role = self.role_of(E, x.args[0])
        self.unl.append(role)
        return [Outcome(ret=fs(0), sets={'$unl': fs(1)}), Outcome(ret=fs(-1), sets={'$unl': fs(0)})]

    def prim_prioq_insert(self, E, x, args):
        q = g1v(args[0])
        self.ins.append((q[1] if isinstance(q, tuple) else q, g1(E, '$unl'), {k[6:]: g1(E, k) for k in E.store if k.startswith('$stat:')}))
        return [Outcome(ret=fs(1), sets={'$nins': fs(g1(E, '$nins', 0) + 1)})]

    def on_return(self, E, fn, val):
        if fn.name == 'job_close':
            self.ends = getattr(self, 'ends', [])
            self.ends.append((g1(E, '$nins', 0), g1(E, '$unl'), {k[6:]: g1(E, k) for k in E.store if k.startswith('$stat:')}, g1(E, 'JO[1].refs'), E.trace.list()))


def analyse_job_close(db, rep):
    prog = db.program('qmail-send')
    fn = prog.fn('job_close', 'qmail-send.c')
    bad = {}
    n = 0
    for refs in (1, 2):
        for eof in (0, 1):
            for todo in (0, 2):
                for ch in (0, 1):
                    H = JobGuardHooks()
                    eng = Engine(db, prog, H)
                    fid = eng.frame_id(fn)
                    eng.run(fn, {'%s::%s' % (fid, fn.params[0]): fs(1), 'JO[1].refs': fs(refs), 'JO[1].id': fs(77), 'JO[1].retry': fs(5555), 'JO[1].channel': fs(ch),
                                 'JO[1].flaghiteof': fs(eof), 'JO[1].numtodo': fs(todo)})
                    rep.count_states(eng.states, eng.transitions)
                    n += 1
                    may = refs == 1 and eof == 1 and todo == 0
                    tr0 = H.ends[0][4] if getattr(H, 'ends', None) else []
                    if H.unl and not may:
                        bad.setdefault('jc:channel-file-removed-only-when-read-to-EOF-and-nothing-outstanding',
                                       ('job_close with %d reference(s) left after this one, flaghiteof=%d numtodo=%d removes %s: recipients not yet done (or still being delivered) lose their record' % (refs - 1, eof, todo, H.unl), tr0))
                    if may and (not H.unl or any(r != ('chan', ch) for r in H.unl)):
                        bad.setdefault('jc:channel-file-removed-only-when-read-to-EOF-and-nothing-outstanding',
                                       ('a finished job of channel %d (read to EOF, nothing outstanding) removes %s (documented: its own channel file)' % (ch, H.unl), tr0))
                    if refs == 2 and (H.ins or H.unl):
                        bad.setdefault('jc:nothing-happens-while-deliveries-reference-the-job', ('job_close with another delivery still referencing the job inserts %s / removes %s' % ([q for q, _, _ in H.ins], H.unl), tr0))
                    for nins, unl, stats, refs_after, tr in getattr(H, 'ends', []):
                        if refs == 1:
                            more = any(v == 'exists' for v in stats.values())
                            okend = nins == 1 or (nins == 0 and more and unl == 1)
                            if not okend:
                                bad.setdefault('jc:job-ends-in-exactly-one-of-pqdone/pqchan/more-channels', ('job_close with the last reference returns after %d queue insert(s), other-channel-exists=%s' % (nins, more), tr))
                    for q, unl, stats in H.ins:
                        if q == 'G:pqdone' and unl != 1:
                            bad.setdefault('jc:pqdone-only-after-own-channel-file-removed', ('message moved to pqdone although its channel file was not removed', tr0))
    if n < 16:
        raise AnalysisBroken('job_close: scenarios not explored')
    keys = ('jc:channel-file-removed-only-when-read-to-EOF-and-nothing-outstanding', 'jc:nothing-happens-while-deliveries-reference-the-job',
            'jc:job-ends-in-exactly-one-of-pqdone/pqchan/more-channels', 'jc:pqdone-only-after-own-channel-file-removed')
    return {k: (k not in bad, 'qmail-send.c:job_close', bad[k][0] if k in bad else '', bad[k][1] if k in bad else []) for k in keys}


class JobReinsertHooks(JobCloseHooks):
    """job_close(1) over a concrete job record: which queue gets the message back, with which time"""
    precise = frozenset(['L:c', 'L:j', 'L:i'])

    def __init__(self):
        super().__init__()
        self.ins = []

    def site(self, *a, **k):
        pass

    def tracked_global(self, path):
        return True

    def precise_arith(self, path):
        return True

    def materialize(self, E, path):
        if path == 'G:jo':
            return fs(('&', 'JO[0]'))
        return TOP

    def prim_now(self, E, x, args):
        return [Outcome(ret=fs(9000))]

    def prim_prioq_insert(self, E, x, args):
        q, pe = g1v(args[0]), g1v(args[1])
        if not (isinstance(q, tuple) and q[0] == '&' and isinstance(pe, tuple) and pe[0] == '&'):
            raise AnalysisBroken('job_close: prioq_insert() arguments are not object addresses')
        self.ins.append((q[1], g1(E, pe[1] + '.id'), g1(E, pe[1] + '.dt'), g1(E, '$unl'), E.trace.list()))
        return [Outcome(ret=fs(1))]


def analyse_job_reinsert(db, rep):
    prog = db.program('qmail-send')
    fn = prog.fn('job_close', 'qmail-send.c')
    bad = None
    n = 0
    for ch in (0, 1):
        for eof in (0, 1):
            for todo in (0, 2):
                H = JobReinsertHooks()
                eng = Engine(db, prog, H)
                fid = eng.frame_id(fn)
                eng.run(fn, {'%s::%s' % (fid, fn.params[0]): fs(1), 'JO[1].refs': fs(1), 'JO[1].id': fs(77), 'JO[1].retry': fs(5555), 'JO[1].channel': fs(ch),
                             'JO[1].flaghiteof': fs(eof), 'JO[1].numtodo': fs(todo), 'JO[0].id': fs(11), 'JO[0].retry': fs(1111), 'JO[0].channel': fs(1 - ch)})
                rep.count_states(eng.states, eng.transitions)
                sysfail = db.unit('qmail-send.c').macro_int('SLEEP_SYSFAIL')
                for q, pid, dt, unl, tr in H.ins:
                    n += 1
                    if q.startswith('G:pqchan'):
                        # the channel file could not be removed: try again after SLEEP_SYSFAIL; otherwise the job's own retry time
                        dt_ok = dt == 5555 or (unl == 0 and sysfail is not None and dt == 9000 + sysfail)
                        if q != 'G:pqchan[%d]' % ch or pid != 77 or not dt_ok:
                            bad = bad or ('a job of channel %d for message 77 with retry time 5555 is put back as (queue %s, id %s, time %s): the back-off computed for it is lost' % (ch, q, pid, dt), tr)
                    elif q == 'G:pqdone':
                        if pid != 77:
                            bad = bad or ('message %s is moved to pqdone instead of message 77' % pid, tr)
                    else:
                        bad = bad or ('job_close inserts into %s' % q, tr)
    if n < 6 and bad is None:
        raise AnalysisBroken('job_close: only %d re-insertions explored' % n)
    return {'jc:job-goes-back-to-its-own-channel-queue-with-its-retry-time': (bad is None, 'qmail-send.c:job_close', bad[0] if bad else '%d re-insertions' % n, bad[1] if bad else [])}


# =============================================================================== cleanup_do
class CleanupHooks(SendHooks):
    def __init__(self, ossified):
        super().__init__()
        self.oss = ossified

    def prim_readsubdir_next(self, E, x, args):
        return [Outcome(ret=fs(1), havoc=self._arg_roots(E, x, args)), Outcome(ret=fs(0)), Outcome(ret=fs(-1))]

    def prim_readsubdir_init(self, E, x, args):
        return [Outcome(ret=TOP)]

    def on_branch(self, E, cond, truth):
        src = cond.src()
        if 'st_atim' in src:
            def ev(recent):
                env = {}
                for y in cond.walk():
                    if y.k == 'cast' and y.op == 'LValueToRValue':
                        p = E.eng.canon(E, y.args[0])
                        if p and 'st_atim' in p:
                            env[p] = 1000000
                        elif p:
                            env[p] = 1000000 + recent
                return E.eng.concrete(E, cond, env)
            young = ev(self.oss - 1)
            old = ev(self.oss + 1)
            if young is not None and bool(young) == truth:
                E.set('$young', fs(1))
            if old is not None and bool(old) == truth:
                E.set('$old', fs(1))

    def prim_substdio_putflush(self, E, x, args):
        if self.clean_request(E, x):
            role = self.role_of(E, x.args[1])
            self.count('request')
            ok = (role == 'foop' and g1(E, '$stat:mess') == 'exists' and g1(E, '$stat:info') == 'noent' and g1(E, '$stat:todo') == 'noent')
            self.site('gc:foop-request-only-for-mess-without-info-and-todo', x, ok,
                      'garbage collection requests %s with mess=%s info=%s todo=%s' % (role, g1(E, '$stat:mess'), g1(E, '$stat:info'), g1(E, '$stat:todo')), E)
            self.site('gc:only-files-older-than-OSSIFIED', x, g1(E, '$young', 0) != 1 and g1(E, '$old', 0) == 1,
                      'a file younger than OSSIFIED (%d s) can reach the removal request: a message still being written by qmail-queue would be deleted' % self.oss, E)
            return [Outcome(ret=fs(0)), Outcome(ret=fs(-1))]
        return None

    def prim_substdio_get(self, E, x, args):
        return self.clean_answer(E, x, args)


def analyse_cleanup_do(db, rep):
    prog = db.program('qmail-send')
    fn = prog.fn('cleanup_do', 'qmail-send.c')
    oss = db.unit('qmail-send.c').macro_int('OSSIFIED')
    if oss is None:
        raise AnalysisBroken('OSSIFIED is not an integer macro')
    H = CleanupHooks(oss)
    eng = Engine(db, prog, H)
    eng.run(fn, {})
    rep.count_states(eng.states, eng.transitions)
    if H.counts.get('request', 0) < 1 and all(v[0] for v in H.sites.values()):
        raise AnalysisBroken('cleanup_do: request not explored')
    return H.sites


# =============================================================================== pqadd
class PqaddHooks(SendHooks):
    def precise_arith(self, path):
        return True         # small function: every local counter is exact

    def on_return(self, E, fn, val):
        stats = {k[6:]: g1(E, k) for k in list(E.store) if k.startswith('$stat:')}
        ins = {k[5:]: g1(E, k, 0) for k in list(E.store) if k.startswith('$ins:')}
        self.count('return')
        if 'error' in stats.values():
            self.site('pqadd:stat-error-never-drops-the-message', None, ins.get('pqfail', 0) == 1 and sum(ins.values()) == 1,
                      'a stat() error other than ENOENT ends with inserts %s (must be exactly pqfail)' % ins, E)
            return
        if stats.get('info') == 'noent' or stats.get('todo') == 'exists':
            self.site('pqadd:no-schedule-without-info-or-with-todo', None, sum(ins.values()) == 0, 'inserts %s with info=%s todo=%s' % (ins, stats.get('info'), stats.get('todo')), E)
            return
        self.site('pqadd:schedules-only-after-finding-no-todo-file', None, stats.get('todo') == 'noent' or sum(ins.values()) == 0,
                  'inserts %s with info=%s and todo never looked at (%s): a message whose preprocessing a crash interrupted - todo/<id> still there, info and the channel files half written - must be left to todo_do, which rebuilds those files; scheduling it here opens a job on files that are about to be replaced' % (ins, stats.get('info'), stats.get('todo')), E)
        c0, c1 = stats.get("('chan', 0)"), stats.get("('chan', 1)")
        want = {}
        if c0 == 'exists':
            want['pqchan[c]'] = want.get('pqchan[c]', 0) + 1
        if c1 == 'exists':
            want['pqchan[c]'] = want.get('pqchan[c]', 0) + 1
        if not want:
            want['pqdone'] = 1
        got = {k: v for k, v in ins.items() if v}
        self.site('pqadd:one-queue-entry-per-existing-channel-file-else-pqdone', None, got == want, 'local=%s remote=%s: inserts %s, expected %s' % (c0, c1, got, want), E)


def require_globals(db, *names):
    """rules that speak of the daemon's queues by their names (pqchan, pqfail, pqdone, ...) are undecided - not violated - when such a global is renamed"""
    g = db.unit('qmail-send.c').globals
    gone = [n for n in names if n not in g]
    if gone:
        raise AnalysisBroken('qmail-send.c: the global(s) %s named by this rule no longer exist (renamed?): the rule cannot be decided' % ', '.join(gone))


def analyse_pqadd(db, rep):
    require_globals(db, 'pqfail', 'pqdone', 'pqchan')
    prog = db.program('qmail-send')
    fn = prog.fn('pqadd', 'qmail-send.c')
    H = PqaddHooks()
    eng = Engine(db, prog, H)
    eng.run(fn, {})
    rep.count_states(eng.states, eng.transitions)
    if H.counts.get('return', 0) < 5 and all(v[0] for v in H.sites.values()):
        raise AnalysisBroken('pqadd: returns not explored')
    return H.sites


# =============================================================================== main loop
class MainHooks(SendHooks):
    tracked = frozenset(['G:flagexitasap', 'G:flagrunasap', 'G:flagreadasap'])
    NEED_LOCK = ('pqstart', 'todo_init', 'comm_init', 'job_init', 'del_init', 'pass_init', 'cleanup_init',
                 'todo_do', 'pass_do', 'cleanup_do', 'del_do', 'comm_do')

    def prim_open_write(self, E, x, args):
        s = x.args[0].string
        return [Outcome(ret=fs(('fd', s))), Outcome(ret=fs(-1))]

    def prim_lock_exnb(self, E, x, args):
        v = args[0]
        ok = v is not TOP and len(v) == 1 and next(iter(v)) == ('fd', 'lock/sendmutex')
        self.count('lock')
        return [Outcome(ret=fs(0), sets={'$locked': fs(1 if ok else 0)}, log='lock_exnb ok'), Outcome(ret=fs(-1), log='lock_exnb fails')]

    def prim_close(self, E, x, args):
        v = args[0]
        if v is not TOP and ('fd', 'lock/sendmutex') in v:
            self.site('main:mutex-never-released', x, False, 'the descriptor holding the sendmutex lock is closed', E)
        return [Outcome(ret=TOP)]

    def _work(self, E, x, args):
        self.count(x.callee)
        self.site('main:single-instance-lock-before-queue-work', x, g1(E, '$locked', 0) == 1, '%s() reachable without holding lock/sendmutex' % x.callee, E)
        if x.callee == 'pqstart':
            E.set('$pqstart', fs(1))
        if x.callee in ('todo_do', 'pass_do', 'cleanup_do'):
            self.site('main:queue-scanned-at-startup-before-the-loop', x, g1(E, '$pqstart', 0) == 1, '%s() before pqstart()' % x.callee, E)
        return [Outcome(ret=TOP)]

    prim_pqstart = prim_todo_init = prim_comm_init = prim_job_init = prim_del_init = prim_pass_init = prim_cleanup_init = _work
    prim_todo_do = prim_pass_do = prim_cleanup_do = prim_del_do = prim_comm_do = _work

    def _selprep(self, E, x, args):
        self.count('selprep')
        if x.callee == 'pass_selprep':
            self.site('main:ALRM-handled-before-the-wakeup-time-is-computed', x, E.get('G:flagrunasap') == fs(0),
                      'pass_selprep() computes the wake-up time while flagrunasap may still be pending: pqrun() would run too late and select() sleep until the old retry times', E)
        if x.callee == 'todo_selprep' or x.callee == 'pass_selprep':
            self.site('main:HUP-handled-before-the-wakeup-time-is-computed', x, E.get('G:flagreadasap') == fs(0), 'flagreadasap may be pending at %s()' % x.callee, E, kill=False)
        return [Outcome(ret=TOP, havoc=self._arg_roots(E, x, args))]

    prim_pass_selprep = prim_todo_selprep = prim_cleanup_selprep = prim_comm_selprep = prim_del_selprep = _selprep


    def prim_reread(self, E, x, args):
        self.site('main:HUP-flag-cleared-before-the-controls-are-re-read', x, E.get('G:flagreadasap') == fs(0),
                  'reread() runs while flagreadasap is still set and the flag is cleared afterwards: a HUP arriving during the re-read is wiped out and the newer control files are never loaded', E, kill=False)
        return [Outcome(ret=TOP, log='reread()')]

    def prim_pqrun(self, E, x, args):
        self.count('pqrun')
        self.site('main:ALRM-flag-cleared-before-pqrun', x, E.get('G:flagrunasap') == fs(0),
                  'pqrun() runs while flagrunasap is still set and the flag is cleared afterwards: an ALRM arriving meanwhile is lost', E, kill=False)
        return [Outcome(ret=TOP, log='pqrun()')]

    def prim_del_canexit(self, E, x, args):
        return [Outcome(ret=fs(0), sets={'$canexit': fs(0)}), Outcome(ret=fs(1), sets={'$canexit': fs(1)})]

    def prim_select(self, E, x, args):
        # a signal may arrive at any time; the flags are unknown again after select
        return [Outcome(ret=fs(-1), havoc=('G:flagrunasap', 'G:flagreadasap', 'G:flagexitasap'), sets={'$term': TOP, '$canexit': TOP}),
                Outcome(ret=fs(1), havoc=('G:flagrunasap', 'G:flagreadasap', 'G:flagexitasap'), sets={'$term': TOP, '$canexit': TOP})]

    def on_branch(self, E, cond, truth):
        c = cond.strip()
        neg = False
        while c.k == 'un' and c.op == '!':
            neg = not neg
            c = c.args[0].strip()
        if c.path() == 'G:flagexitasap' and truth in (True, False):
            E.set('$term', fs(1 if (truth != neg) else 0))

    def prim_pqfinish(self, E, x, args):
        self.count('pqfinish')
        self.site('main:loop-left-only-on-TERM-with-no-delivery-in-flight', x, g1(E, '$term') == 1 and g1(E, '$canexit') == 1,
                  'the main loop can be left with flagexitasap-seen-set=%s del_canexit=%s' % (g1(E, '$term'), g1(E, '$canexit')), E)
        E.set('$pqfinish', fs(1))
        return [Outcome(ret=TOP, log='pqfinish()')]

    def prim__exit(self, E, x, args):
        v = args[0]
        if v == fs(0):
            self.site('main:retry-times-saved-before-exit-0', x, g1(E, '$pqfinish', 0) == 1, '_exit(0) without pqfinish()', E)
        return 'noreturn'

    def prim_getcontrols(self, E, x, args):
        return [Outcome(ret=fs(0)), Outcome(ret=fs(1))]

    def prim_fnmake_init(self, E, x, args):
        return [Outcome(ret=TOP)]


def analyse_main(db, rep):
    prog = db.program('qmail-send')
    fn = prog.fn('main', 'qmail-send.c')
    H = MainHooks()
    eng = Engine(db, prog, H)
    eng.run(fn, {})
    rep.count_states(eng.states, eng.transitions)
    for k, mn in (('lock', 1), ('pqstart', 1), ('selprep', 3), ('pqfinish', 1), ('todo_do', 1)):
        if H.counts.get(k, 0) < mn and all(v[0] for v in H.sites.values()):
            raise AnalysisBroken('qmail-send main: %s explored %d times' % (k, H.counts.get(k, 0)))
    return H.sites


class SelprepHooks(SendHooks):
    """X_selprep(..., &wakeup) for one combination of its inputs (queue contents, job and delivery slots, open passes,
    flags are all fixed by the scenario, whether or not the function looks at them): the final wake-up time"""
    DT = {'G:pqchan[0]': 60, 'G:pqchan[1]': 70, 'G:pqfail': 80, 'G:pqdone': 90}
    precise = frozenset(['L:c', 'L:j', 'L:i'])

    def __init__(self, w0, scen):
        super().__init__()
        self.w0 = w0
        self.scen = scen
        self.rows = []

    def tracked_global(self, path):
        return True

    def precise_arith(self, path):
        return True

    def prim_del_avail(self, E, x, args):
        c = g1v(args[0])
        return [Outcome(ret=fs(self.scen['avail'][c] if c in (0, 1) else 0))]

    def prim_job_avail(self, E, x, args):
        return [Outcome(ret=fs(self.scen['job']))]

    def prim_trigger_selprep(self, E, x, args):
        return [Outcome(ret=TOP)]

    def prim_prioq_min(self, E, x, args):
        q = g1v(args[0])
        pe = g1v(args[1])
        if not (isinstance(q, tuple) and q[0] == '&' and q[1] in self.DT and isinstance(pe, tuple) and pe[0] == '&'):
            raise AnalysisBroken('selprep: prioq_min() on an unknown queue %s' % (q,))
        if self.scen['q'][q[1]]:
            return [Outcome(ret=fs(1), sets={pe[1] + '.dt': fs(self.DT[q[1]])})]
        return [Outcome(ret=fs(0))]

    def on_return(self, E, fn, val):
        if fn.name != self.entry:
            return
        self.rows.append((g1(E, 'WK'), E.trace.list()))


def g1v(v):
    return next(iter(v)) if v is not TOP and v is not None and len(v) == 1 else None


def selprep_expected(fname, sc, w0):
    """the documented wake-up time for a scenario"""
    m = w0
    if fname == 'pass_selprep':
        if sc['exit']:
            return w0
        for c in (0, 1):
            if sc['pass'][c] and sc['avail'][c]:
                return 0
        if sc['job']:
            for c in (0, 1):
                if not sc['pass'][c] and sc['q']['G:pqchan[%d]' % c]:
                    m = min(m, SelprepHooks.DT['G:pqchan[%d]' % c])
        for q in ('G:pqfail', 'G:pqdone'):
            if sc['q'][q]:
                m = min(m, SelprepHooks.DT[q])
        return m
    if fname == 'todo_selprep':
        if sc['exit']:
            return w0
        if sc['tododir']:
            return 0
        return min(m, sc['nexttodorun'])
    if fname == 'cleanup_selprep':
        if sc['cleanup']:
            return 0
        return min(m, sc['cleanuptime'])


def selprep_scenarios(fname):
    import itertools
    if fname == 'pass_selprep':
        for ex, p0, p1, job, a0, a1, q0, q1, qf, qd in itertools.product((0, 1), (0, 5), (0, 6), (0, 1), (0, 1), (0, 1), (0, 1), (0, 1), (0, 1), (0, 1)):
            if ex and (p0 or p1 or job or a0 or a1 or q0 or q1 or qf):
                continue        # with flagexitasap one representative is enough
            yield {'exit': ex, 'pass': (p0, p1), 'job': job, 'avail': (a0, a1), 'q': {'G:pqchan[0]': q0, 'G:pqchan[1]': q1, 'G:pqfail': qf, 'G:pqdone': qd}}
    elif fname == 'todo_selprep':
        for ex, td, nt in itertools.product((0, 1), (0, 1), (50, 150)):
            yield {'exit': ex, 'tododir': td, 'nexttodorun': nt, 'job': 0, 'avail': (0, 0), 'q': dict.fromkeys(SelprepHooks.DT, 0), 'pass': (0, 0)}
    else:
        for cl, ct in itertools.product((0, 1), (40, 140)):
            yield {'exit': 0, 'cleanup': cl, 'cleanuptime': ct, 'job': 0, 'avail': (0, 0), 'q': dict.fromkeys(SelprepHooks.DT, 0), 'pass': (0, 0)}


def selprep_tables(db, names=('pass_selprep', 'todo_selprep', 'cleanup_selprep')):
    """the wake-up time each X_selprep leaves behind, for every combination of its inputs"""
    prog = db.program('qmail-send')
    out = {}
    why_ = {'pass_selprep': 'zero only with an open pass AND del_avail(c) (otherwise select() returns at once although pass_dochan can do nothing: busy loop); else the minimum of the due times of pqchan[c] (every channel without an open pass, a job slot free), pqfail and pqdone',
            'todo_selprep': 'zero while a todo scan is open, else min(wakeup, nexttodorun)',
            'cleanup_selprep': 'zero while a clean-up scan is in progress, else min(wakeup, cleanuptime)'}
    for fname in names:
        fn = prog.fn(fname, 'qmail-send.c')
        nrows = 0
        bad = None
        for sc in selprep_scenarios(fname):
            for w0 in ((100, 10) if fname != 'pass_selprep' else (100,)):
                H = SelprepHooks(w0, sc)
                H.entry = fname
                eng = Engine(db, prog, H)
                fid = eng.frame_id(fn)
                store = {'WK': fs(w0), 'G:flagexitasap': fs(sc['exit']), 'G:pass[0].id': fs(sc['pass'][0]), 'G:pass[1].id': fs(sc['pass'][1]),
                         'G:tododir': fs(('&', 'DIR')) if sc.get('tododir') else fs(0), 'G:nexttodorun': fs(sc.get('nexttodorun', 0)),
                         'G:flagcleanup': fs(sc.get('cleanup', 0)), 'G:cleanuptime': fs(sc.get('cleanuptime', 0))}
                for p_ in fn.params:
                    if 'datetime_sec' in fn.param_types.get(p_, ''):
                        store['%s::%s' % (fid, p_)] = fs(('&', 'WK'))
                eng.run(fn, store)
                exp = selprep_expected(fname, sc, w0)
                if len(H.rows) != 1:
                    raise AnalysisBroken('%s: %d ends for one scenario' % (fname, len(H.rows)))
                nrows += 1
                wkv, tr = H.rows[0]
                if wkv != exp and bad is None:
                    shown = {k: v for k, v in sc.items() if v not in (0, (0, 0))}
                    bad = (shown, wkv, exp, tr)
        if nrows < 4:
            raise AnalysisBroken('%s: only %d input combinations explored' % (fname, nrows))
        out['selprep:%s:wakeup-table' % fname] = (bad is None, 'qmail-send.c:' + fname,
                                                 ('%d input combinations; %s' % (nrows, why_[fname])) if bad is None else
                                                 ('inputs %s (wake-up time on entry %s): wakeup=%s, documented %s; %s' % (bad[0], 100, bad[1], bad[2], why_[fname])), bad[3] if bad else [])
    return out


class ProgressHooks(SelprepHooks):
    """X_do() for one scenario: does the daemon do anything at all?"""
    def __init__(self, scen, recent):
        super().__init__(0, scen)
        self.recent = recent
        self.idle = []
        self.progress = 0

    def _progress(self, E, x, args):
        self.progress += 1
        return 'noreturn'

    prim_prioq_delmin = prim_getln = prim_readsubdir_next = prim_readdir = prim_del_start = prim_pqadd = prim_messdone = _progress

    def prim_prioq_min(self, E, x, args):
        q = g1v(args[0])
        pe = g1v(args[1])
        if not (isinstance(q, tuple) and q[0] == '&' and q[1] in self.DT and isinstance(pe, tuple) and pe[0] == '&'):
            raise AnalysisBroken('progress: prioq_min() on an unknown queue %s' % (q,))
        if self.scen['q'][q[1]]:
            return [Outcome(ret=fs(1), sets={pe[1] + '.dt': fs(self.DT[q[1]]), pe[1] + '.id': fs(77)})]
        return [Outcome(ret=fs(0))]

    def prim_trigger_pulled(self, E, x, args):
        return [Outcome(ret=fs(0))]

    def on_return(self, E, fn, val):
        if fn.name == self.entry:
            self.idle.append(E.trace.list())


def analyse_progress(db, rep):
    """no busy loop: whenever an X_selprep asks select() to return at once (or names a time that has passed), the
    matching X_do, run in the same state, does something"""
    prog = db.program('qmail-send')
    recent = 1000
    out = {}
    for sel, do in (('pass_selprep', 'pass_do'), ('cleanup_selprep', 'cleanup_do'), ('todo_selprep', 'todo_do')):
        fn = prog.fn(do, 'qmail-send.c')
        bad = None
        ndue = 0
        for sc in selprep_scenarios(sel):
            if sel == 'cleanup_selprep':
                scs = [dict(sc, exit=0), dict(sc, exit=1)]
            else:
                scs = [sc]
            for sc_ in scs:
                if sel == 'todo_selprep':
                    sc_ = dict(sc_, nexttodorun=sc_['nexttodorun'] + 2000)       # not due by time: only the open scan asks for zero
                if sel == 'cleanup_selprep':
                    sc_ = dict(sc_, cleanuptime=sc_['cleanuptime'] + 2000)
                exp = selprep_expected(sel, sc_, recent + 5000)
                if exp > recent:
                    continue
                ndue += 1
                H = ProgressHooks(sc_, recent)
                H.entry = do
                eng = Engine(db, prog, H)
                store = {'G:recent': fs(recent), 'G:flagexitasap': fs(sc_['exit']), 'G:pass[0].id': fs(sc_['pass'][0]), 'G:pass[1].id': fs(sc_['pass'][1]),
                         'G:tododir': fs(('&', 'DIR')) if sc_.get('tododir') else fs(0), 'G:nexttodorun': fs(sc_.get('nexttodorun', 0)),
                         'G:flagcleanup': fs(sc_.get('cleanup', 0)), 'G:cleanuptime': fs(sc_.get('cleanuptime', 0))}
                eng.run(fn, store)
                if H.idle and bad is None:
                    shown = {k: v for k, v in sc_.items() if v not in (0, (0, 0)) and k != 'q'}
                    shown['queues with a due entry'] = [q for q, v in sc_['q'].items() if v]
                    bad = ('in the state %s %s() asks select() to return at once (wake-up time %s, now %d) and %s() returns without doing anything: the daemon spins' % (shown, sel, exp, recent, do), H.idle[0])
        if ndue < 1:
            raise AnalysisBroken('%s: no due scenario' % sel)
        out['progress:%s-due=>%s-acts' % (sel, do)] = (bad is None, 'qmail-send.c:' + do, bad[0] if bad else '%d due scenarios' % ndue, bad[1] if bad else [])
    return out


def selprep_sites(db):
    """C16 timeout computation: the three tables and main()'s use of the result"""
    prog = db.program('qmail-send')
    out = selprep_tables(db)
    out['selprep:every-due-time-source-lowers-the-wakeup'] = (all(out['selprep:%s:wakeup-table' % f][0] for f in ('pass_selprep', 'todo_selprep', 'cleanup_selprep')), 'qmail-send.c',
                                                            'decided by the three tables: every queue, nexttodorun and cleanuptime is an input of a scenario whose documented result depends on it', [])
    # main: the select() timeout for every wake-up time the selprep functions can leave behind
    fuzz = db.unit('qmail-send.c').macro_int('SLEEP_FUZZ')
    forever = db.unit('qmail-send.c').macro_int('SLEEP_FOREVER')
    out['main:SLEEP_FUZZ>=1'] = (fuzz is not None and fuzz >= 1, 'qmail-send.c', 'SLEEP_FUZZ = %s' % fuzz, [])
    main = prog.fn('main', 'qmail-send.c')
    H = TimeoutHooks(forever)
    eng = Engine(db, prog, H)
    eng.run(main, {})
    if H.counts.get('select', 0) < 4:
        raise AnalysisBroken('main: select() reached on %d explored wake-up values only' % H.counts.get('select', 0))
    for k, v in H.sites.items():
        if k.startswith('main:zero-timeout') or k.startswith('main:positive-timeout') or k.startswith('main:wakeup-starts') or k.startswith('main:recent-'):
            out[k] = v
    for k in ('main:zero-timeout-iff-wakeup<=recent', 'main:positive-timeout-covers-the-distance-to-wakeup', 'main:wakeup-starts-at-recent+SLEEP_FOREVER',
              'main:recent-is-the-current-time-when-the-timeout-is-computed'):
        if k not in out:
            raise AnalysisBroken('main: %s not decided' % k)
    return out


class TimeoutHooks(MainHooks):
    """main() through two rounds of the loop (the clock advances while select() sleeps): tv.tv_sec as a function of the
    wake-up time and of the CURRENT time"""
    R = 1000
    STEP = 500
    DELTAS = (-5, 0, 1, 10, 4000)

    def __init__(self, forever):
        super().__init__()
        self.forever = forever

    def tracked_global(self, path):
        return super().tracked_global(path) or path == 'G:recent'

    def precise_arith(self, path):
        return True

    def site(self, inst, x, ok, detail, E, kill=True):
        if inst.startswith('main:zero-timeout') or inst.startswith('main:positive-timeout') or inst.startswith('main:wakeup-starts') or inst.startswith('main:recent-'):
            super().site(inst, x, ok, detail, E, kill=False)

    def clock(self, E):
        return g1(E, '$clock', self.R)

    def prim_now(self, E, x, args):
        return [Outcome(ret=fs(self.clock(E)))]

    def _work(self, E, x, args):
        return [Outcome(ret=TOP)]

    prim_pqstart = prim_todo_init = prim_comm_init = prim_job_init = prim_del_init = prim_pass_init = prim_cleanup_init = _work
    prim_todo_do = prim_pass_do = prim_cleanup_do = prim_del_do = prim_comm_do = _work

    def _selprep(self, E, x, args):
        wk = None
        for i, a in enumerate(args):
            v = g1v(a)
            if isinstance(v, tuple) and v[0] == '&' and i < len(x.args) and 'datetime_sec' in (x.args[i].type or ''):
                wk = v[1]
        if x.callee != 'pass_selprep' or wk is None:
            if x.callee == 'pass_selprep':
                raise AnalysisBroken('main: pass_selprep() is not handed the wake-up time')
            return [Outcome(ret=TOP)]
        now_ = self.clock(E)
        self.site('main:recent-is-the-current-time-when-the-timeout-is-computed', x, g1(E, 'G:recent') == now_,
                  'the clock reads %d and the wake-up time is compared with recent=%s: after select() was interrupted by a signal the daemon sleeps too long by the time it had already slept' % (now_, g1(E, 'G:recent')), E)
        w0 = g1(E, wk)
        self.site('main:wakeup-starts-at-recent+SLEEP_FOREVER', x, w0 == g1(E, 'G:recent', 0) + self.forever,
                  'the wake-up time handed to the selprep functions starts at %s (documented recent + SLEEP_FOREVER = %s)' % (w0, g1(E, 'G:recent', 0) + self.forever), E)
        return [Outcome(ret=TOP, sets={wk: fs(now_ + d), '$wk': fs(now_ + d)}) for d in self.DELTAS]

    prim_pass_selprep = prim_todo_selprep = prim_cleanup_selprep = prim_comm_selprep = prim_del_selprep = _selprep

    def prim_select(self, E, x, args):
        self.count('select')
        tvp = g1v(args[4]) if len(args) > 4 else None
        w = g1(E, '$wk')
        now_ = self.clock(E)
        sec = g1(E, tvp[1] + '.tv_sec') if isinstance(tvp, tuple) and tvp[0] == '&' else None
        if w is not None:
            if w <= now_:
                self.site('main:zero-timeout-iff-wakeup<=recent', x, sec == 0, 'wakeup=%d now=%d: select() timeout is %s s (documented 0: work is due now)' % (w, now_, sec), E)
            else:
                self.site('main:zero-timeout-iff-wakeup<=recent', x, sec != 0, 'wakeup=%d now=%d: select() timeout is 0 although nothing is due (busy loop)' % (w, now_), E)
                self.site('main:positive-timeout-covers-the-distance-to-wakeup', x, isinstance(sec, int) and sec >= w - now_ and sec >= 1 and sec <= w - now_ + 60,
                          'wakeup=%d now=%d: select() timeout is %s s (documented wakeup - now + SLEEP_FUZZ)' % (w, now_, sec), E)
        if g1(E, '$round', 0) >= 1:
            return 'noreturn'
        st = {'$round': fs(1), '$clock': fs(now_ + self.STEP), '$term': TOP, '$canexit': TOP}
        hv = ('G:flagrunasap', 'G:flagreadasap', 'G:flagexitasap')
        return [Outcome(ret=fs(-1), havoc=hv, sets=dict(st, **{'$errno': fs(4)}), log='select() interrupted by a signal after %d s' % self.STEP),
                Outcome(ret=fs(1), havoc=hv, sets=st, log='select() returns after %d s' % self.STEP)]

    def prim_pqfinish(self, E, x, args):
        return 'noreturn'


class ClampHooks(SendHooks):
    """qmail-send main() from its entry to the initialisation of the job and delivery tables: the configured concurrency
    limits (cfg) meet the bytes announced by the two spawners (announced, as the signed chars read() stores)"""
    def __init__(self, cfg, announced):
        super().__init__()
        self.cfg = cfg
        self.announced = announced
        self.seen = {}

    def tracked_global(self, path):
        return True

    def precise_arith(self, path):
        return True

    def prim_getcontrols(self, E, x, args):
        return [Outcome(ret=fs(1), sets={'G:concurrency[0]': fs(self.cfg[0]), 'G:concurrency[1]': fs(self.cfg[1])})]

    def prim_read(self, E, x, args):
        k = g1(E, '$reads', 0)
        buf = g1v(args[1])
        if k >= 2 or not (isinstance(buf, tuple) and buf[0] == '&'):
            return 'noreturn'
        return [Outcome(ret=fs(1), sets={buf[1]: fs(self.announced[k]), '$reads': fs(k + 1)}, log='spawner %d announces the byte 0x%02x' % (k, self.announced[k] & 255)),
                Outcome(ret=fs(0), sets={'$silent': fs(1), '$reads': fs(k + 1)}, log='spawner %d closes the pipe without announcing anything' % k)]

    def _init(self, E, x, args):
        self.seen.setdefault(x.callee, []).append((g1(E, 'G:concurrency[0]'), g1(E, 'G:concurrency[1]'), g1(E, 'G:numjobs'), g1(E, '$reads', 0), g1(E, '$silent', 0), x.where, E.trace.list()))
        return [Outcome(ret=TOP)]

    prim_job_init = prim_del_init = _init

    def _stop(self, E, x, args):
        return 'noreturn'

    prim_pass_init = prim_todo_init = prim_cleanup_init = prim_select = prim_pqfinish = _stop

    def _n(self, E, x, args):
        return [Outcome(ret=TOP)]

    prim_fnmake_init = prim_comm_init = prim_pqstart = prim_log1 = prim_log2 = prim_log3 = prim_sig_pipeignore = prim_sig_termcatch = prim_sig_alarmcatch = prim_sig_hupcatch = prim_sig_childdefault = prim_umask = _n

    def _ok0(self, E, x, args):
        return [Outcome(ret=fs(0))]

    prim_chdir = prim_lock_exnb = _ok0

    def prim_open_write(self, E, x, args):
        return [Outcome(ret=fs(9))]


def clamp_sites(db, rep=None):
    """C04: the number of delivery slots per channel is min(configured, announced by the spawner as an unsigned byte), fixed before
    the job and delivery tables are sized, and numjobs is their sum (main explored concretely from its entry)"""
    prog = db.program('qmail-send')
    main = prog.fn('main', 'qmail-send.c')
    bad = {}
    n = 0
    for cfg, ann in (((3, 200), (5, 5)), ((200, 3), (5, 5)), ((200, 200), (-128, 127)), ((200, 255), (-1, -56)), ((10, 10), (0, 9))):
        H = ClampHooks(cfg, ann)
        e = Engine(db, prog, H, max_states=200000)
        e.run(main, {})
        if rep is not None:
            rep.count_states(e.states, e.transitions)
        want = tuple(min(cfg[k], ann[k] & 255) for k in (0, 1))
        for nm in ('job_init', 'del_init'):
            for c0, c1, nj, reads, silent, where, tr in H.seen.get(nm, []):
                n += 1
                txt = 'configured limits %s, announced bytes %s' % (list(cfg), ['0x%02x' % (b & 255) for b in ann])
                if silent:
                    bad.setdefault('clamp:concurrency=min(configured,announced)', (where, '%s: %s() runs although a spawner never announced its limit' % (txt, nm), tr))
                    continue
                if reads < 2:
                    bad.setdefault('clamp:before-%s' % nm, (where, '%s: %s() runs after %d of the 2 announcements were read' % (txt, nm, reads), tr))
                    continue
                if (c0, c1) != want:
                    small = all(0 <= b < 128 for b in ann)
                    key = 'clamp:concurrency=min(configured,announced)' if small else 'clamp:announced-limit-read-as-an-unsigned-byte'
                    bad.setdefault(key, (where, '%s: %s() sees the limits (%s, %s); documented %s' % (txt, nm, c0, c1, list(want)), tr))
                if nm == 'job_init' and nj != sum(want) and (c0, c1) == want:
                    bad.setdefault('clamp:before-job_init', (where, '%s: job_init() sizes the job table with numjobs=%s; documented %d, the sum of the limits' % (txt, nj, sum(want)), tr))
        for nm in ('job_init', 'del_init'):
            if not H.seen.get(nm) and not bad:
                raise AnalysisBroken('main: %s() not reached from the entry of main (limits %s)' % (nm, cfg))
    out = {}
    for k in ('clamp:concurrency=min(configured,announced)', 'clamp:announced-limit-read-as-an-unsigned-byte', 'clamp:before-job_init', 'clamp:before-del_init'):
        out[k] = (k not in bad, bad[k][0] if k in bad else 'qmail-send.c:main', bad[k][1] if k in bad else '%d table initialisations explored' % n, bad[k][2] if k in bad else [])
    return out


def id_width_sites(db):
    """message numbers are inode numbers (unsigned long): nowhere in qmail-send.c is one converted to a narrower type on its way into a function or variable"""
    import re
    NARROW = {'int', 'unsigned int', 'short', 'unsigned short', 'char', 'unsigned char', 'signed char'}
    u = db.unit('qmail-send.c')
    narrowing, nids = [], 0
    for f in u.functions.values():
        for x in f.all_x():
            if x.k == 'cast' and x.op == 'IntegralCast' and x.args and x.args[0] is not None:
                a = x.args[0]
                src = a.src().replace(' ', '')
                is_id = a.type in ('unsigned long', 'long unsigned int') and (src.endswith('.id') or src.endswith('->id') or re.search(r'(^|[^\w])id$', src) is not None)
                if is_id:
                    nids += 1
                    if x.type in NARROW:
                        narrowing.append('%s (%s as %s) in %s' % (x.where, src, x.type, f.name))
            if x.k == 'call':
                for a in x.args:
                    if a is not None and a.type in ('unsigned long', 'long unsigned int') and re.search(r'(\.|->|^)id$', a.src().replace(' ', '')):
                        nids += 1
        for pn in f.params:
            if pn.split(':')[-1] == 'id' and f.param_types.get(pn, 'unsigned long') in NARROW:
                narrowing.append('%s: parameter id of %s() is %s' % (f.unit, f.name, f.param_types.get(pn)))
    if nids < 10 and not narrowing:
        raise AnalysisBroken('qmail-send.c: only %d message-number expressions found' % nids)
    return {'ids:message-numbers-are-never-narrowed': (not narrowing, 'qmail-send.c', 'a message number is converted to a 32-bit type at %s: for inode numbers of 2^32 and more the function works on another message\'s files (a finished recipient is not marked and is delivered again)' % narrowing[:3] if narrowing else '%d message-number expressions' % nids, [])}


class RereadHooks(SendHooks):
    """reread() (HUP): the daemon works with paths relative to queue/; whatever the re-read of the control files does, it is back there afterwards"""
    def __init__(self):
        super().__init__()
        self.ends = []

    def tracked_global(self, path):
        return True

    def prim_chdir(self, E, x, args):
        from qv.lib import lit_of
        lit = lit_of(E, x.args[0])
        where = 'queue' if lit == 'queue' else 'home'
        if where == 'home':
            return [Outcome(ret=fs(0), sets={'$cwd': fs('home')}, log='chdir(home)'), Outcome(ret=fs(-1), log='chdir(home) fails')]
        return [Outcome(ret=fs(0), sets={'$cwd': fs('home/queue' if g1(E, '$cwd', 'queue') == 'home' else 'elsewhere')}, log='chdir("queue")')]

    def prim_control_readfile(self, E, x, args):
        return [Outcome(ret=fs(1)), Outcome(ret=fs(0)), Outcome(ret=fs(-1), log='control file unreadable')]

    def _ok1(self, E, x, args):
        return [Outcome(ret=fs(1))]

    prim_stralloc_copy = prim_constmap_init = _ok1

    def _n(self, E, x, args):
        return [Outcome(ret=TOP)]

    prim_constmap_free = prim_log1 = prim_sleep = _n

    def on_return(self, E, fn, val):
        if fn.name == 'reread':
            self.ends.append((g1(E, '$cwd', 'queue'), E.trace.list()))


def reread_sites(db, rep):
    prog = db.program('qmail-send')
    fn = prog.fn('reread', 'qmail-send.c')
    H = RereadHooks()
    eng = Engine(db, prog, H, max_states=100000)
    eng.run(fn, {'$cwd': fs('queue')})
    rep.count_states(eng.states, eng.transitions)
    if len(H.ends) < 2:
        raise AnalysisBroken('reread: %d ends explored' % len(H.ends))
    bad = [e_ for e_ in H.ends if e_[0] not in ('queue', 'home/queue')]
    return {'reread:back-in-the-queue-directory-on-every-way-out': (not bad, 'qmail-send.c:reread',
            'after a HUP with an unreadable control file the daemon is left in %r: every queue-relative path fails from then on (finished recipients are not marked and are delivered again, retry times are not saved)' % (bad[0][0] if bad else ''), bad[0][1] if bad else [])}


# =============================================================================== helpers for rule files
def attach(rule, sites, prefixes=None, only=None, exclude=()):
    n = 0
    for inst, (ok, where, detail, path) in sorted(sites.items()):
        if prefixes is not None and not any(inst.startswith(p) for p in prefixes):
            continue
        if only is not None and inst not in only:
            continue
        if inst in exclude:
            continue
        rule.check(ok, inst, where, detail, path)
        n += 1
    return n


DIRROLE = {'info/': 'info', 'todo/': 'todo', 'mess/': 'mess', 'foop/': 'foop', '': 'split', 'bounce/': 'bounce',
           'local/': 'chan', 'remote/': 'chan', 'intd/': 'intd', 'pid/': 'pid'}


def _dir_role(f, argx):
    """role named by a directory-prefix argument of fmtqfn() (or of a helper that passes it on): a literal, a cell of
    chanaddr[], or ('param', k) when it is f's own k-th parameter"""
    a = argx.strip()
    if a.string is not None:
        return DIRROLE.get(a.string, ('lit', a.string))
    p = a.path()
    if p is not None and p.startswith('G:chanaddr['):
        return 'chan'
    if p is not None and p in f.params:
        return ('param', f.params.index(p))
    return None


def _call_role(prog, f, c, which, depth):
    """role that call c (inside f) leaves in `which` (fn.s / fn2.s): a role, ('param', k) of f, 'deferred', or None if it does not set it"""
    if c.callee == 'fmtqfn' and c.args and c.args[0].path() == which:
        r = _dir_role(f, c.args[1])
        return r if r is not None else 'deferred'
    if not c.callee or depth >= 4:
        return None
    g = prog.resolve(c.callee, f.unit)
    if g is None or not g.blocks or g.unit != f.unit or g.name == f.name:
        return None
    r = exit_role(prog, g, which, depth + 1)
    if isinstance(r, tuple) and r[0] == 'param':
        r = _dir_role(f, c.args[r[1]]) if r[1] < len(c.args) else None
        return r if r is not None else 'deferred'
    if r is not None:
        return r
    return 'deferred' if _sets_name(prog, g, which) else None     # leaves different names on different paths: only a path-sensitive run can tell


def exit_role(prog, f, which, depth=0):
    """role of fn.s (which='G:fn.s') / fn2.s left by function f on return, if every return agrees; else None"""
    cache = getattr(prog, '_exit_role', None)
    if cache is None:
        cache = prog._exit_role = {}
    key = (f.name, which)
    if key in cache:
        return cache[key]
    cache[key] = None
    roles = set()
    rets = [x for x in f.all_x() if x.k == 'ret']
    ends = rets if rets else []
    if not ends:
        # falls off the end: use the last element of blocks that lead to the exit block
        for b in f.blocks.values():
            if f.exit in b.succs and b.elems:
                ends.append(f.x(b.elems[-1]['i']))
    for e in ends:
        r = _resolve_local(prog, f, e, which, depth, at_exit=True)
        roles.add(r)
    res = next(iter(roles)) if len(roles) == 1 and None not in roles else None
    cache[key] = res
    return res


def _sets_name(prog, g, which, seen=()):
    """does g (transitively, inside the unit) call a maker of `which`?"""
    if g.name in seen:
        return False
    for c in g.calls():
        if c.callee == 'fmtqfn' and c.args and c.args[0].path() == which:
            return True
        h = prog.resolve(c.callee, g.unit) if c.callee else None
        if h is not None and h.blocks and h.unit == g.unit and _sets_name(prog, h, which, seen + (g.name,)):
            return True
    return False


def _makers(prog, f, which, depth):
    out = []
    for c in f.calls():
        r = _call_role(prog, f, c, which, depth)
        if r is not None:
            out.append((c, r))
    return out


def _resolve_local(prog, f, x, which, depth, at_exit=False):
    """role at element x inside f from the makers of f alone: reaching definitions over the flow graph.
    None if the name may still be the caller's on some path; one role; or ('ambiguous', role, role...) if several reach.
    at_exit: x is a last element of f, and a maker that is x itself counts."""
    makers = _makers(prog, f, which, depth)
    if not makers:
        return None
    by_block = {}
    for m, r in makers:
        bm, im = f.pos[m.id]
        by_block.setdefault(bm, []).append((im, r))
    for v in by_block.values():
        v.sort()
    bx, ix = f.pos[x.id]
    IN = {f.entry: frozenset(['<caller>'])}
    work = [f.entry]
    while work:
        b = work.pop()
        st = IN[b]
        if b in by_block:
            st = frozenset([by_block[b][-1][1]])
        for sc in f.blocks[b].succs:
            if sc is None:
                continue
            new = IN.get(sc, frozenset()) | st
            if new != IN.get(sc):
                IN[sc] = new
                work.append(sc)
    if bx not in IN:
        return None
    st = IN[bx]
    for im, r in by_block.get(bx, []):
        if im < ix or (at_exit and im == ix):
            st = frozenset([r])
    if '<caller>' in st:
        return None
    if len(st) == 1:
        return next(iter(st))
    return ('ambiguous',) + tuple(sorted(map(str, st)))


def static_role(fn, call, argx, prog=None, depth=0):
    """role of a fn.s / fn2.s argument: from the closest dominating fnmake_* (or helper that always leaves one
    role) in the same function; if the function itself never sets it, from its call sites in the unit"""
    p = argx.path()
    if p not in ('G:fn.s', 'G:fn2.s'):
        s = argx.string
        return ('lit', s) if s is not None else None
    if prog is None:
        prog = _PROG[0]
    r = _resolve_local(prog, fn, call, p, depth)
    if r is not None:
        return r
    if depth >= 3:
        return None
    roles = set()
    for g in prog.functions():
        if g.unit != fn.unit or g.name == fn.name:
            continue
        for c in g.calls(fn.name):
            roles.add(_site_role(prog, g, c, p, depth + 1))
    if len(roles) == 1:
        return next(iter(roles))
    return None if not roles or None in roles else ('ambiguous',) + tuple(sorted(map(str, roles)))


def _site_role(prog, g, c, which, depth):
    r = _resolve_local(prog, g, c, which, depth)
    if r is not None:
        return r
    roles = set()
    if depth >= 3:
        return None
    for h in prog.functions():
        if h.unit != g.unit or h.name == g.name:
            continue
        for cc in h.calls(g.name):
            roles.add(_site_role(prog, h, cc, which, depth + 1))
    return next(iter(roles)) if len(roles) == 1 else None


_PROG = [None]


EFFECT_PRIMS = {'unlink': 0, 'rename': 0, 'link': 1, 'open_excl': 0, 'open_trunc': 0, 'open_write': 0, 'open_append': 0,
                'truncate': 0, 'mkdir': 0, 'rmdir': 0, 'symlink': 1, 'utimes': 0, 'utime': 0, 'chmod': 0}
PROTECTED = {'mess', 'todo', 'info', 'chan', 'bounce', 'foop', 'intd', 'split'}
SEND_TABLE = {
    ('job_close', 'unlink', 'chan'): 'channel file removed when read to EOF and nothing outstanding (C02 rule 4)',
    ('injectbounce', 'unlink', 'bounce'): 'bounce record removed after the notice was queued (C02 rule 5)',
    ('messdone', 'unlink', 'info'): 'last step of message removal in qmail-send; mess/ goes through qmail-clean',
    ('todo_do', 'unlink', 'chan'): 'stale channel file from an interrupted preprocessing run',
    ('todo_do', 'unlink', 'info'): 'stale info file from an interrupted preprocessing run',
    ('todo_do', 'open_excl', 'info'): 'preprocessing creates info/<n>',
    ('todo_do', 'open_excl', 'chan'): 'preprocessing creates local/<n>, remote/<n>',
    ('markdone', 'open_write', 'chan'): 'the only writer of an existing channel file: one byte D at the record position',
    ('addbounce', 'open_append', 'bounce'): 'bounce text accumulates in bounce/<n>',
    ('pqfinish', 'utimes', 'chan'): 'retry time saved in the channel file\'s mtime at shutdown',
}


class MarkHooks(SendHooks, libtab.SAConc):
    """markdone(channel 1, message 7, position 4000) with every system call succeeding: what reaches the channel file"""
    def __init__(self):
        SendHooks.__init__(self)
        self.ev = []
        self.ends = 0

    def tracked_global(self, path):
        return True

    def precise_arith(self, path):
        return True

    def prim_open_write(self, E, x, args):
        self.ev.append(('open', g1(E, '$fn')))
        return [Outcome(ret=fs(5))]

    def prim_fstat(self, E, x, args):
        return [Outcome(ret=fs(0))]

    def prim_seek_set(self, E, x, args):
        self.ev.append(('seek', libtab._one(args[0]), libtab._one(args[1])))
        return [Outcome(ret=fs(0))]

    def prim_lseek(self, E, x, args):
        self.ev.append(('seek', libtab._one(args[0]), libtab._one(args[1]) if libtab._one(args[2]) == 0 else ('whence', libtab._one(args[2]))))
        return [Outcome(ret=args[1])]

    def prim_write(self, E, x, args):
        n = libtab._one(args[2])
        data = self.mem(E, libtab._one(args[1]), n) if isinstance(n, int) and 0 <= n < 64 else None
        self.ev.append(('write', libtab._one(args[0]), data))
        return [Outcome(ret=args[2])]

    def prim_close(self, E, x, args):
        self.ev.append(('close', libtab._one(args[0])))
        return [Outcome(ret=fs(0))]

    def on_return(self, E, fn, val):
        if fn.name == 'markdone':
            self.ends += 1


def markdone_site(db, prog):
    md = prog.fn('markdone', 'qmail-send.c')
    H = MarkHooks()
    e = Engine(db, prog, H, max_states=20000)
    fid = e.frame_id(md)
    e.run(md, {'%s::%s' % (fid, md.params[0]): fs(1), '%s::%s' % (fid, md.params[1]): fs(7), '%s::%s' % (fid, md.params[2]): fs(4000)})
    if H.ends != 1:
        raise AnalysisBroken('markdone: %d ends with every system call succeeding' % H.ends)
    touching = [v for v in H.ev if v[0] in ('seek', 'write')]
    ok = H.ev[:1] == [('open', ('chan', 1))] and touching == [('seek', 5, 4000), ('write', 5, b'D')]
    return (ok, md.unit + ':markdone', 'markdone(channel 1, message 7, position 4000) does %s; documented: open the channel file, seek to 4000, write the one byte "D"' % (H.ev,), [])


def effect_sites(db):
    """R-EFFECT over qmail-send.c: every mutating file primitive on a queue name is in the table.  A site inside a
    helper counts for every table function (root) that can reach the helper; a site no root reaches is unknown."""
    prog = db.program('qmail-send')
    _PROG[0] = prog
    out = {}
    n = 0
    roots = {k[0] for k in SEND_TABLE}
    callers = {}
    for fn in prog.functions():
        if fn.unit != 'qmail-send.c':
            continue
        for c in fn.calls():
            if c.callee:
                callers.setdefault(c.callee, set()).add(fn.name)

    def roots_of(name, seen=()):
        if name in roots:
            return {name}
        if name in seen:
            return set()
        r = set()
        for g in callers.get(name, ()):
            r |= roots_of(g, seen + (name,))
        return r
    for fn in prog.functions():
        if fn.unit != 'qmail-send.c':
            continue
        for c in fn.calls(tuple(EFFECT_PRIMS)):
            idx = EFFECT_PRIMS[c.callee]
            if idx >= len(c.args):
                continue
            role = static_role(fn, c, c.args[idx], prog)
            if role is None:
                raise AnalysisBroken('%s: cannot resolve which queue file %s(%s) names in %s' % (c.where, c.callee, c.args[idx].src(), fn.name))
            if isinstance(role, tuple) and role[0] == 'lit':
                continue       # lock/..., fixed non-queue names
            path_dependent = role == 'deferred' or (isinstance(role, tuple) and role[0] == 'ambiguous')
            if path_dependent and roots_of(fn.name) and roots_of(fn.name) <= {'todo_do', 'messdone', 'injectbounce', 'job_close'}:
                # which file it is depends on the way to the call (a loop over the channel files and info, a helper that names
                # different files): decided path-sensitively by the typestate runs of these roots (their own who-may sites)
                n += 1
                continue
            if role == 'deferred' or (isinstance(role, tuple) and role[0] == 'ambiguous' and 'deferred' in role):
                # decided path-sensitively by the typestate runs of these roots (their own who-may sites)
                if roots_of(fn.name) and roots_of(fn.name) <= {'todo_do', 'messdone', 'injectbounce', 'job_close'}:
                    n += 1
                    continue
                raise AnalysisBroken('%s: the file %s(%s) names in %s depends on the path through a helper' % (c.where, c.callee, c.args[idx].src(), fn.name))
            # one call site may act on different files on different ways to it (a loop over the channel files and info): each counts
            role_set = list(role[1:]) if isinstance(role, tuple) and role[0] == 'ambiguous' else [role]
            n += 1
            for role in role_set:
                if role not in PROTECTED:
                    continue
                rs = roots_of(fn.name)
                for root in (rs or {fn.name}):
                    key = (root, c.callee, role)
                    prev = out.get('effect:%s:%s:%s' % key)
                    if prev is not None and not prev[0]:
                        continue
                    out['effect:%s:%s:%s' % key] = (key in SEND_TABLE, c.where,
                                                    '%s() (reached from %s) %ss a file with role %s: not in the instance table (mess/, intd/, todo/ are removed only by qmail-clean)' %
                                                    (fn.name, root, c.callee, role), [])
    if n < 9:
        raise AnalysisBroken('qmail-send.c: only %d effect sites resolved (confirmed minimum 9)' % n)
    # markdone writes exactly one byte "D" at pos
    out['effect:markdone-writes-one-byte-D-at-pos'] = markdone_site(db, prog)
    return out


# =============================================================================== job slots
def job_slot_sites(db, rep):
    """job_open() on a two-slot table whose free slot still holds what the previous message left in it: the new job starts
    with nothing to do counted and the end-of-file flag clear, whatever the slot held; a full table gives -1 and changes nothing"""
    from rules import libtab as _lt
    prog = db.program('qmail-send')
    fn = prog.fn('job_open', 'qmail-send.c')
    bad = None

    def table(free1):
        st = {'G:jo': fs(('&', 'JO[0]')), 'G:numjobs': fs(2)}
        for k, (refs, ident, chan, ntodo, eof) in enumerate(((1, 8, 0, 2, 0), (0 if free1 else 2, 9, 0, 3, 1))):
            st.update({'JO[%d].refs' % k: fs(refs), 'JO[%d].id' % k: fs(ident), 'JO[%d].channel' % k: fs(chan), 'JO[%d].numtodo' % k: fs(ntodo), 'JO[%d].flaghiteof' % k: fs(eof),
                       'JO[%d].flagdying' % k: fs(1)})
        return st
    for free1 in (True, False):
        st = table(free1)
        st.update({0: fs(55), 1: fs(1)})
        H = _lt._run_conc(db, rep, prog, fn, st, 'job_open')
        if len(H.ends) != 1:
            raise AnalysisBroken('job_open: %d ends' % len(H.ends))
        end, val, tr = H.ends[0]
        slot1 = {f: _lt.one(end.get('JO[1].' + f)) for f in ('refs', 'id', 'channel', 'numtodo', 'flaghiteof')}
        slot0 = {f: _lt.one(end.get('JO[0].' + f)) for f in ('refs', 'id', 'channel', 'numtodo', 'flaghiteof')}
        if free1:
            ok = _lt.one(val) == 1 and slot1 == {'refs': 1, 'id': 55, 'channel': 1, 'numtodo': 0, 'flaghiteof': 0} and slot0 == {'refs': 1, 'id': 8, 'channel': 0, 'numtodo': 2, 'flaghiteof': 0}
            if not ok and bad is None:
                bad = 'job_open(55, 1) into a slot last used by a message that reached the end of its file with 3 recipients counted: returns %s, slot = %s; documented: a fresh job - references 1, nothing counted, end of file not seen (a stale end-of-file flag lets job_close() unlink a channel file whose pass stopped on an error)' % (_lt.one(val), slot1)
        else:
            ok = _lt.one(val) == -1 and slot1 == {'refs': 2, 'id': 9, 'channel': 0, 'numtodo': 3, 'flaghiteof': 1}
            if not ok and bad is None:
                bad = 'job_open with every slot in use returns %s and leaves slot 1 = %s' % (_lt.one(val), slot1)
    return {'job_open:a-recycled-slot-starts-clean(numtodo=0,flaghiteof=0)': (bad is None, 'qmail-send.c:job_open', bad or 'free stale slot, full table', [])}


# =============================================================================== per-recipient (VERP) senders
def senderadd_sites(db, rep):
    """senderadd() called for a sequence of deliveries whose sender strings live in the same buffer one after the other (a job
    slot is reused by the next message): each call expands owner-@host-@[] to owner-box=domain@host from the sender and recipient
    it is given NOW - nothing remembered from an earlier call - and copies every other sender unchanged"""
    from rules import libtab as _lt
    prog = db.program('qmail-send')
    fn = prog.fn('senderadd', 'qmail-send.c')

    def ref(sender, recip):
        if len(sender) >= 4 and sender.endswith(b'-@[]'):
            j = sender.rfind(b'@', 0, len(sender) - 4)
            k = recip.rfind(b'@')
            if k >= 0 and j >= 0 and j + 5 <= len(sender):
                return sender[:j] + recip[:k] + b'=' + recip[k + 1:] + b'@' + sender[j + 1:len(sender) - 4]
        return sender
    seq = [(b'nb-@lists.example-@[]', b'alice@remote.example'), (b'announce-@l2.example-@[]', b'bob@r.example'), (b'joe@x.example', b'carol@c.example'),
           (b'o-@h.example-@[]', b'dave'), (b'a-@[]', b'erin@e.example'), (b'zz-@q.example-@[]', b'f.g@h.i.example')]
    carry = {}
    bad = None
    for k, (sender, recip) in enumerate(seq):
        H = type('SH', (_lt.SAConc, _lt.Conc), {})('senderadd')
        st = dict(carry)
        for q in [q for q in st if q.startswith('SND[') or q.startswith('RCP[') or q.startswith('OUT.')]:
            del st[q]
        st.update({0: fs(('&', 'OUT')), 1: fs(('&', 'SND[0]')), 2: fs(('&', 'RCP[0]')), 'OUT.len': fs(0), 'OUT.s': fs(('&', 'OUT.s[0]'))})
        st.update(_lt.conc_string_cells('SND', sender))
        st.update(_lt.conc_string_cells('RCP', recip))
        _lt._run_conc(db, rep, prog, fn, st, 'senderadd', H)
        if len(H.ends) != 1:
            if bad is not None:
                break           # a decided violation stands; what follows it in the sequence runs on the state it corrupted
            raise AnalysisBroken('senderadd call %d: %d ends' % (k + 1, len(H.ends)))
        end = H.ends[0][0]
        got = H.sa_bytes_store(end, 'OUT') if hasattr(H, 'sa_bytes_store') else None
        if got is None:
            n_ = _lt.one(end.get('OUT.len'))
            got = bytes((_lt.one(end.get('OUT.s[%d]' % i)) or 0) & 255 for i in range(n_)) if isinstance(n_, int) and 0 <= n_ < 300 else None
        want = ref(sender, recip)
        if got != want and bad is None:
            bad = 'delivery %d of the sequence (sender %r, recipient %r, sender buffer reused from the delivery before): the envelope sender becomes %r; documented (addresses(5)): %r' % (k + 1, sender, recip, got, want)
        carry = {q: v for q, v in end.items() if '::' not in q or '::SL:' in q}
    return {'senderadd:per-recipient-sender-from-this-call\'s-sender-and-recipient': (bad is None, 'qmail-send.c:senderadd', bad or '%d deliveries in sequence' % len(seq), [])}
