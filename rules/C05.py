"""C05 — inbound SMTP DATA is decoded transparently and framed only by CRLF.CRLF.

qmail-smtpd's blast() is explored as a finite transducer over {CR, LF, DOT, other}
(state variable and program point tracked exactly; the header-hop variables are left
nondeterministic and shown not to influence framing) and compared, for every input
string, with a reference decoder written from RFC 5321 4.5.2 as qualified by the property.
"""
from qv.core import AnalysisBroken
from qv.esp import Engine, Outcome, TOP, fs
from qv.lib import QHooks
from qv import stream as S


class DecHooks(QHooks):
    precise = frozenset()

    def __init__(self, stream):
        self.stream = stream     # the object main() hands to commands()
        self.cmp = S.Cmp()
        self.bad = {}
        self.reads = 0
        self.puts = 0
        self.returns = 0
        self.rejects = 0
        self.ref_edges = set()

    def fail(self, E, inst, x, detail):
        if inst not in self.bad:
            self.bad[inst] = (x.where if x is not None else 'qmail-smtpd.c:blast', detail, E.trace.list())
        E.kill()

    def g(self, E, k, d):
        v = E.get(k)
        return next(iter(v)) if v else d

    def prim_substdio_get(self, E, x, args):
        self.reads += 1
        tgt = args[1]
        chp = None
        if tgt is not TOP and len(tgt) == 1:
            (a,) = tgt
            if isinstance(a, tuple) and a[0] == '&':
                chp = a[1]
        src = x.args[0].strip()
        if chp is None or x.args[2].const != 1 or not (src.k == 'un' and src.args[0].path() == self.stream):
            # reading the message from anything but the command stream object breaks "same stream"
            self.fail(E, 'data-read-from-the-command-stream-object', x, 'blast() reads with %s' % x.src())
            return [Outcome(ret=TOP)]
        verdict = self.g(E, '$verdict', None)
        if verdict == 'END':
            self.fail(E, 'stop-reading-at-the-terminator', x, 'blast() reads another byte after CR LF . CR LF')
            return [Outcome(ret=TOP)]
        if verdict == 'REJECT':
            self.fail(E, 'bare-LF-refused', x, 'a bare LF was read and blast() goes on reading instead of refusing the message')
            return [Outcome(ret=TOP)]
        outs = []
        for name, vals in S.CLASSES:
            outs.append(Outcome(ret=fs(1), sets={chp: vals}, log='input: %s' % name,
                                apply=lambda E2, name=name: self.ref_step(E2, x, name)))
        return outs

    def ref_step(self, E, x, sym):
        st = self.g(E, '$ref', 'BOL')
        st2, out, verdict = S.smtp_decoder(st, sym)
        self.ref_edges.add((st, sym, st2, verdict))
        E.set('$ref', fs(st2))
        if verdict:
            E.set('$verdict', fs(verdict))
        m = self.cmp.emit(E, 'ref', out)
        if m:
            self.fail(E, 'decoded-stream-equals-reference', x, m)

    def prim_put(self, E, x, args):
        self.puts += 1
        lit = x.args[0].string
        if lit is not None:
            syms = S.sym_of_bytes(lit[:1])
        else:
            a = x.args[0].strip()
            if not (a.k == 'un' and a.op == '&'):
                raise AnalysisBroken('blast(): cannot model put(%s)' % x.args[0].src())
            cls = S.classify(E.get(E.canon(a.args[0])))
            if cls is None:
                self.fail(E, 'output-byte-is-an-input-byte', x, 'put() of a byte that is not the byte just read')
                return [Outcome(ret=TOP)]
            syms = [cls]
        syms = ['NL' if s == S.LF else s for s in syms]
        if self.g(E, '$verdict', None) == 'REJECT':
            self.fail(E, 'bare-LF-refused', x, 'a bare LF (not preceded by CR) is stored instead of being refused')
            return [Outcome(ret=TOP)]
        m = self.cmp.emit(E, 'impl', syms)
        if m:
            self.fail(E, 'decoded-stream-equals-reference', x, m)
        return [Outcome(ret=TOP)]

    def prim_straynewline(self, E, x, args):
        self.rejects += 1
        if self.g(E, '$verdict', None) != 'REJECT':
            self.fail(E, 'refusal-only-for-bare-LF', x, 'straynewline() reached although no bare LF was read (reference state %s)' % self.g(E, '$ref', 'BOL'))
        return 'noreturn'

    def on_return(self, E, fn, val):
        self.returns += 1
        v = self.g(E, '$verdict', None)
        if v != 'END':
            self.fail(E, 'return-only-at-CRLF.CRLF', None, 'blast() returns with the reference decoder in state %s (verdict %s)' % (self.g(E, '$ref', 'BOL'), v))
            return
        if not self.cmp.empty(E):
            self.fail(E, 'decoded-stream-equals-reference', None, 'at the terminator: %s' % self.cmp.describe(E))


class HopHooks(QHooks):
    """blast() over byte strings drawn from the letters of received/delivered (both cases), CR, LF, "." and another byte:
    *hops against the documented count: the header lines OF THE MESSAGE AS IT IS STORED that start, in any case, with "received"
    or "delivered" (the header ends at the first empty line).  A line's leading dot is removed by the decoder, so it is not part
    of the line the count is about: ".Received: x" on the wire is the field "Received: x" in the queue."""
    ALPHA = sorted(set(ord(c) for c in 'receivdlRECEIVDL') | {13, 10, 46, ord('x')})
    CAP = 2

    def __init__(self):
        self.bad = None
        self.reads = 0
        self.returns = 0
        self.maxhops = 0

    def tracked_global(self, path):
        return path.startswith('$') or path == 'HOPS'

    def precise_arith(self, path):
        return True

    def ghost(self, E):
        return g1(E, '$gh', (1, '', 0, 0))      # (in header, line prefix (<= 9 bytes, lower case), hops, this line's leading dot was dropped)

    def prim_substdio_get(self, E, x, args):
        self.reads += 1
        tgt = args[1]
        chp = None
        if tgt is not TOP and len(tgt) == 1:
            (a,) = tgt
            if isinstance(a, tuple) and a[0] == '&':
                chp = a[1]
        if chp is None:
            raise AnalysisBroken('blast(): substdio_get target is not an object address')
        inh, pre, hops, dotted = self.ghost(E)
        got = g1(E, 'HOPS')
        if isinstance(got, int) and got > hops:
            # counted more than the documented number: wrong whether the counter is stored eagerly or only at the end
            if self.bad is None:
                self.bad = ('after this input the hop counter is already %s, documented %s (header lines beginning with received/delivered, header ends at the first empty line)' % (got, hops), E.trace.list())
            E.kill()
            return 'noreturn'
        if hops >= self.CAP:
            # exploration bound reached: finish the message with a fixed tail (no further header match possible) so that
            # the count is compared where it is handed back
            tail = [13, 10, 46, 13, 10]
            k = g1(E, '$tail', 0)
            if k >= len(tail):
                return 'noreturn'
            b = tail[k]
            i2, p2, d2 = inh, pre, dotted
            if inh:
                if b == 46 and p2 == '' and not d2:
                    d2 = 1
                elif len(p2) < 9:
                    p2 = p2 + chr(b)
                    if p2 == '\r\n':
                        i2 = 0
                if b == 10:
                    p2, d2 = '', 0
            if not i2:
                p2 = ''
            return [Outcome(ret=fs(1), sets={chp: fs(b), '$gh': fs((i2, p2, hops, d2)), '$tail': fs(k + 1)}, log='closing byte %r' % chr(b))]
        outs = []
        for b in self.ALPHA:
            i2, p2, h2, d2 = inh, pre, hops, dotted
            if inh:
                if b == 46 and p2 == '' and not d2:
                    d2 = 1          # the leading dot of a wire line: the decoder drops it (or it is the terminator's)
                elif len(p2) < 9:
                    p2 = p2 + chr(b).lower()
                    if p2 == 'received' or p2 == 'delivered':
                        h2 += 1
                    if p2 == '\r\n':
                        i2 = 0
                if b == 10:
                    p2, d2 = '', 0
                # prefixes that can no longer match anything are equivalent: normalise (keeps the state space small)
                if p2 and not ('received'.startswith(p2) or 'delivered'.startswith(p2) or '\r\n'.startswith(p2)) and len(p2) < 9:
                    p2 = p2[:0] + '#' * len(p2)
            if not i2:
                p2 = ''
            outs.append(Outcome(ret=fs(1), sets={chp: fs(b), '$gh': fs((i2, p2, h2, d2))}, log='input byte %r' % chr(b)))
        return outs

    def prim_put(self, E, x, args):
        return [Outcome(ret=TOP)]

    def prim_straynewline(self, E, x, args):
        return 'noreturn'

    def on_return(self, E, fn, val):
        if fn.name != 'blast':
            return
        self.returns += 1
        inh, pre, hops, dotted = self.ghost(E)
        got = g1(E, 'HOPS')
        self.maxhops = max(self.maxhops, hops)
        if got != hops and self.bad is None:
            self.bad = ('at the end of the message the hop counter is %s, documented %s' % (got, hops), E.trace.list())


def g1(E, k, d=None):
    v = E.get(k)
    return next(iter(v)) if v is not TOP and v is not None and len(v) == 1 else d


def hop_sites(db, rep, cap=2):
    prog = db.program('qmail-smtpd')
    blast = prog.fn('blast', 'qmail-smtpd.c')
    H = HopHooks()
    H.CAP = cap
    eng = Engine(db, prog, H, max_states=6000000)
    fid = eng.frame_id(blast)
    eng.run(blast, {'%s::%s' % (fid, blast.params[0]): fs(('&', 'HOPS'))})
    rep.count_states(eng.states, eng.transitions)
    if H.bad is None and (H.reads < 100 or H.returns < 1):
        raise AnalysisBroken('blast(): hop exploration did not run (%d reads, %d returns)' % (H.reads, H.returns))
    return {'hop-count=header-lines-starting-with-received/delivered': (H.bad is None, 'qmail-smtpd.c:blast', H.bad[0] if H.bad else '%d abstract states' % eng.states, H.bad[1] if H.bad else [])}, eng.states



def decoder_sites(db, rep):
    """qmail-smtpd blast() against the reference decoder, for every wire string over {CR,LF,DOT,other}: instance -> (ok, where, detail, path); also the statistics"""
    prog = db.program('qmail-smtpd')
    blast = prog.fn('blast', 'qmail-smtpd.c')
    main = prog.fn('main', 'qmail-smtpd.c')
    cm = main.calls('commands')
    if not cm:
        raise AnalysisBroken('main: commands() call not found')
    a0 = cm[0].args[0].strip()
    if not (a0.k == 'un' and a0.op == '&' and a0.args[0].path()):
        raise AnalysisBroken('main: commands() is not given the address of a substdio object')
    stream = a0.args[0].path()
    H = DecHooks(stream)
    eng = Engine(db, prog, H)
    eng.run(blast)
    rep.count_states(eng.states, eng.transitions)
    if not H.bad and (H.reads < 1 or H.puts < 3 or H.returns == 0 or H.rejects == 0):
        raise AnalysisBroken('qmail-smtpd blast(): reads/puts/returns/rejects not found (%d/%d/%d/%d)' % (H.reads, H.puts, H.returns, H.rejects))
    insts = ['decoded-stream-equals-reference', 'bare-LF-refused', 'refusal-only-for-bare-LF', 'return-only-at-CRLF.CRLF',
             'stop-reading-at-the-terminator', 'data-read-from-the-command-stream-object', 'output-byte-is-an-input-byte']
    out = {}
    for i in insts + [k for k in H.bad if k not in insts]:
        if i in H.bad:
            w, d, t = H.bad[i]
            out[i] = (False, w, d, t)
        else:
            out[i] = (True, 'qmail-smtpd.c:blast', '', [])
    if not H.bad and len(H.ref_edges) < 18:
        raise AnalysisBroken('only %d of the reference decoder\'s edges were exercised; extraction incomplete' % len(H.ref_edges))
    return out, H, eng


def die_reply_sites(db, rep, prog):
    """qmail-smtpd's fatal replies (straynewline, die_alarm, ...): the text is written to the client BEFORE the output is flushed and the process ends"""
    out = {}
    for name in ('straynewline', 'die_alarm', 'die_nomem', 'die_control'):
        fn = prog.resolve(name, 'qmail-smtpd.c')
        if fn is None or not fn.blocks:
            continue
        seqs = []

        class DH(QHooks):
            def ev(self, E, e):
                E.set('$ev', fs(tuple(next(iter(E.get('$ev') or [()]))) + (e,)))

            def prim_out(self, E, x, args):
                from qv.lib import lit_of
                self.ev(E, ('out', (lit_of(E, x.args[0]) or '')[:3]))
                return [Outcome(ret=TOP)]

            def prim_flush(self, E, x, args):
                self.ev(E, ('flush', ''))
                return [Outcome(ret=TOP)]

            def prim__exit(self, E, x, args):
                seqs.append(tuple(next(iter(E.get('$ev') or [()]))))
                return 'noreturn'
        e = Engine(db, prog, DH(), max_states=20000)
        e.run(fn, {})
        rep.count_states(e.states, e.transitions)
        ok = bool(seqs) and all(any(ev[0] == 'out' and ev[1][:1] in '45' for ev in s_) and s_ and s_[-1][0] == 'flush' and
                                max(i for i, ev in enumerate(s_) if ev[0] == 'out') < max(i for i, ev in enumerate(s_) if ev[0] == 'flush') for s_ in seqs)
        out['%s:reply-written-then-flushed-then-exit' % name] = (ok, 'qmail-smtpd.c:' + name, 'the process ends after %s: a reply that is only buffered when the output is flushed never reaches the client' % (list(seqs[:2]),), [])
    if 'straynewline:reply-written-then-flushed-then-exit' not in out:
        raise AnalysisBroken('qmail-smtpd: straynewline() not found')
    return out


def run(ctx):
    db, rep = ctx.db, ctx.report
    prog = db.program('qmail-smtpd')
    blast = prog.fn('blast', 'qmail-smtpd.c')
    r = rep.rule('C05.1-decoder-equivalence', 'R-TRANSDUCER',
                 'for every wire string over {CR,LF,DOT,other}: stored bytes = reference decoder output (CRLF->LF, one leading dot removed, bare CR kept), '
                 'bare LF refused via straynewline, return exactly at CRLF.CRLF, nothing read beyond it')
    dsites, H, eng = decoder_sites(db, rep)
    stream = H.stream if hasattr(H, 'stream') else None
    main = prog.fn('main', 'qmail-smtpd.c')
    cm = main.calls('commands')
    for i, v in dsites.items():
        r.check(v[0], i, v[1], v[2], v[3])
    # the refusal reaches the client: straynewline() puts the 451 text out, flushes it, and only then ends the process
    for inst_, v_ in sorted(die_reply_sites(db, rep, prog).items()):
        r.check(v_[0], inst_, v_[1], v_[2], v_[3])
    # the byte stream under blast(): short reads are shifted intact (substdio_feed / byte_copyr)
    from rules import libtab as _lt
    for f_ in (_lt.substdio_read_sites, _lt.byte_copyr_sites):
        for inst_, v_ in sorted(f_(db, rep, prog).items()):
            r.check(v_[0], 'read-side:' + inst_, v_[1], v_[2], v_[3])
    n_edges = len(H.ref_edges)
    r.note(abstract_states=eng.states, reference_edges_exercised=n_edges, exhaustive=True)
    rep.exhaustive_rules.append('C05.1-decoder-equivalence')
    rep.sample({'reference decoder edges exercised': sorted('%s --%s--> %s%s' % (a, b, c, (' [' + d + ']') if d else '') for a, b, c, d in H.ref_edges)})

    # ---- framing does not depend on the hop-counting variables; the byte is only compared
    r2 = rep.rule('C05.2-abstraction-exact', 'R-GUARD', 'framing state depends only on `state` and comparisons of the byte with constants')
    state_assigns = [x for x in blast.all_x() if x.k == 'asg' and (x.args[0].path() or '').startswith('L:state')]
    # (a decoder that computes its next state from a table has no constant assignments: for it the independence is carried by
    #  rule 1 alone, whose exploration leaves the hop-counting variables undetermined and so covers every value of them)
    for x in state_assigns:
        if len(state_assigns) >= 6:
            r2.check(x.op == '=' and x.args[1].const is not None, 'state:=const', x.where, 'state assigned a non-constant: %s' % x.src())
        bad = []
        for c, t in blast.guards(x) or []:
            for v in c.refs():
                base = v.split('#')[0]
                if base in ('L:flaginheader', 'L:pos', 'L:flagmaybex', 'L:flagmaybey', 'L:flagmaybez', 'P:hops'):
                    bad.append(base)
        r2.check(not bad, 'state-independent-of-hop-vars', x.where, 'assignment to state is guarded by %s' % sorted(set(bad)))
    for c in blast.calls(('put', 'straynewline')):
        bad = []
        for cc, t in blast.guards(c) or []:
            for v in cc.refs():
                base = v.split('#')[0]
                if base in ('L:flaginheader', 'L:pos', 'L:flagmaybex', 'L:flagmaybey', 'L:flagmaybez', 'P:hops'):
                    bad.append(base)
        r2.check(not bad, '%s-independent-of-hop-vars' % c.callee, c.where, 'guarded by %s' % sorted(set(bad)))

    # ---- nothing but the documented limits refuses a well-framed message
    r3 = rep.rule('C05.3-no-false-refusal', 'R-TRANSDUCER', 'a correctly framed message is stored unless it reaches the documented limits: the hop counter counts exactly the header lines beginning with received/delivered (header ends at the first empty line); the size countdown refuses from stored byte databytes+1')
    hs, nst = hop_sites(db, rep, cap=ctx.deep(2, 3))
    for inst, v in sorted(hs.items()):
        r3.check(v[0], inst, v[1], v[2], v[3])
    from rules import C07
    for inst, v in sorted(C07.smtpd_size_sites(db, rep).items()):
        r3.check(v[0], inst, v[1], v[2], v[3])
    # the refusals above work only through the failure latch of qmail.c: once set, no envelope reaches the queue program
    ls_, _ = C07.latch_sites(db, rep, prog)
    for inst, v in sorted(ls_.items()):
        if inst.startswith('qmail_from:') or inst.startswith('qmail_put:') or inst.startswith('qmail_fail:') or inst.startswith('qmail_close:'):
            r3.check(v[0], 'latch:' + inst, v[1], v[2], v[3])
    r3.note(hop_states=nst)
    r3.expect_min(6)

    # ---- round trip with this package's own client
    r5 = rep.rule('C05.5-round-trip', 'R-TRANSDUCER', 'what qmail-remote puts on the wire for a message is decoded by an RFC 5321 receiver to exactly the lines of the message (the receiver side is rule 1); a message whose last line is unterminated is refused by the client, never silently completed')
    from rules import C06
    for inst, v in sorted(C06.encoder_sites(db, rep).items()):
        r5.check(v[0], 'client:' + inst, v[1], v[2], v[3])
    r5.expect_min(5)

    # ---- same stream afterwards
    r4 = rep.rule('C05.4-same-stream', 'R-EFFECT', 'message bytes and commands are read through one substdio object on descriptor 0, so bytes after the terminator are the next command whatever the chunking')
    u = db.unit('qmail-smtpd.c')
    readers = []
    for name, g in u.globals.items():
        if g.get('t', '').replace('struct ', '') in ('substdio',) or g.get('t') == 'struct substdio':
            init = g.get('init')
            flat = []

            def walk(v):
                if isinstance(v, dict):
                    if v.get('k') == 'fn':
                        flat.append(v['v'])
                    elif v.get('k') == 'list':
                        for e in v['v']:
                            walk(e)
            walk(init)
            if any(f in ('F:saferead', 'F:read') for f in flat):
                readers.append(name)
    for fn in prog.functions():
        if fn.unit != 'qmail-smtpd.c':
            continue
        for c in fn.calls('substdio_fdbuf'):
            if c.args[1].var in ('F:saferead', 'F:read'):
                readers.append('fdbuf@%s' % fn.name)
    r4.check(readers == [stream[2:]], 'one-input-substdio', 'qmail-smtpd.c', 'input substdio objects: %s (must be exactly the one given to commands(): %s)' % (readers, stream[2:]))
    for c in cm:
        a = c.args[0].strip()
        r4.check(a.k == 'un' and a.op == '&' and a.args[0].path() == stream, 'commands-reads-the-same-object', c.where, 'commands(%s)' % c.args[0].src())
    # smtp_data: between blast() and return nothing else reads ssin
    sd = prog.fn('smtp_data', 'qmail-smtpd.c')
    bl = sd.calls('blast')
    if not bl:
        raise AnalysisBroken('smtp_data: blast() call not found')
    other_reads = [c for c in sd.calls(('substdio_get', 'substdio_bget', 'substdio_feed', 'getln', 'read', 'saferead', 'substdio_peek', 'substdio_seek'))]
    r4.check(not other_reads, 'no-other-read-in-smtp_data', sd.unit + ':smtp_data', 'smtp_data reads input itself: %s' % other_reads)
    # commands() reads byte-wise from its argument
    cmds = db.fn('commands.c', 'commands')
    from qv.lib import deep_calls
    gets = deep_calls(prog, cmds, ('substdio_get', 'substdio_bget'))
    okc = bool(gets)
    for f, g in gets:
        # the stream argument is the function's own parameter (commands' ss, or the helper's parameter it was handed)
        okc = okc and (g.args[0].path() or '').startswith('P:') and g.args[2].const == 1
        if f is not cmds:
            okc = okc and any((a.path() or '').startswith('P:') for c in cmds.calls(f.name) for a in c.args)
    r4.check(okc, 'commands-reads-1-byte-from-its-argument', 'commands.c:commands', 'commands() must read single bytes from the stream it is given')
    rep.assume('substdio_get(&ssin,&ch,1) yields the connection\'s bytes in order regardless of how reads were chunked',
               'saferead terminates the process on EOF/error/timeout (checked under C07)')
