#!/bin/sh
# tools/trymut.sh <patch.diff> <ID>...  — apply a seeded change to /repo, run the checks, undo it.
patch="$1"; shift
git -C /repo diff --quiet || { echo "/repo has local changes; refusing"; exit 3; }
git -C /repo apply "$patch" || { echo "patch does not apply"; exit 3; }
for id in "$@"; do
  /verif/check "$id" > /tmp/trymut.$$.out 2>&1; rc=$?
  echo "--- $id exit=$rc"
  grep -E "^VIOLATION|^ANALYSIS-BROKEN|^  rule " /tmp/trymut.$$.out | head -12
done
rm -f /tmp/trymut.$$.out
git -C /repo checkout -- .
