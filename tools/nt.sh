#!/bin/sh
# tools/nt.sh <name> [dir]: scratch worktree /var/tmp/nw/<name> of /repo HEAD with a neutral/seeded patch applied; runs its property's check
n=$1; dir=${2:-/tmp/neu/out3}; wt=/var/tmp/nw/$n; pid=${3:-${n%%-*}}
mkdir -p /var/tmp/nw
if [ ! -d $wt ]; then git -C /repo worktree add -q --detach $wt HEAD && git -C $wt apply $dir/$n/patch.diff || exit 2; fi
QV_EVIDENCE_DIR=/var/tmp/nw/.evidence /verif/check $pid --repo $wt | grep -E "^==|  rule|BROKEN|Error|error" | cut -c1-${W:-600}
