#!/usr/bin/env python3
"""Every behaviour-preserving edit against EVERY check (an edit to a shared file must not alarm a neighbour)."""
import os, re, subprocess, sys
base = sys.argv[1] if len(sys.argv) > 1 else '/verif/neutral'
only = sys.argv[2:]
ids = ['C%02d' % i for i in range(1, 21)]
bad = 0
tot = 0
for name in sorted(os.listdir(base)):
    patch = os.path.join(base, name, 'patch.diff')
    if not os.path.exists(patch) or (only and not any(name.startswith(o) for o in only)):
        continue
    if subprocess.run(['git', '-C', '/repo', 'diff', '--quiet']).returncode != 0:
        print('/repo dirty'); sys.exit(3)
    if subprocess.run(['git', '-C', '/repo', 'apply', patch], capture_output=True).returncode != 0:
        print(name, 'patch does not apply'); continue
    try:
        touched = set(re.findall(r'^\+\+\+ b/(\S+)', open(patch).read(), re.M))
        procs = {i: subprocess.Popen(['/verif/check', i], stdout=subprocess.PIPE, stderr=subprocess.STDOUT, text=True) for i in ids}
        for i, p in procs.items():
            out, _ = p.communicate()
            tot += 1
            if p.returncode != 0:
                bad += 1
                msg = '; '.join(re.findall(r'^  rule (\S+ \[\S+\] instance \S+)', out, re.M)[:2]) or ' '.join(re.findall(r'^ANALYSIS-BROKEN: (.*)', out, re.M))[:160]
                print('%-8s %s exit=%d %s' % (name, i, p.returncode, msg))
    finally:
        subprocess.run(['git', '-C', '/repo', 'checkout', '--', '.'])
print('alarms %d of %d runs' % (bad, tot))
