#!/usr/bin/env python3
"""Regenerates MANIFEST.json from tools/manifest_checks.json (single source for the per-property texts)."""
import json, os
here = os.path.dirname(os.path.abspath(__file__))
root = os.path.dirname(here)
spec = json.load(open(os.path.join(here, 'manifest_checks.json')))
checks = []
for c in spec['checks']:
    pid = c['property_id']
    checks.append({
        'property_id': pid,
        'quick_cmd': './check %s --tier quick' % pid,
        'thorough_cmd': './check %s --tier thorough' % pid,
        'evidence_file': 'evidence/%s.json' % pid,
        'replay_cmd_template': './check %s --replay {path}' % pid,
        'engine': 'qv',
        'level_claimed': {'category': 'other', 'text': c['text'], 'design_ref': 'DESIGN.md §5 ' + pid},
        'level_note': c['note'],
        'technique': c['technique'],
    })
m = {
    'version': 1,
    'setup_cmd': './setup.sh',
    'hooks': {'guard': 'NOTQMAIL_VERIF', 'enable': 'no hooks exist: the checks analyse the unmodified sources (the extractor passes -DNOTQMAIL_VERIF for forward compatibility)',
              'baseline_off_cmd': 'tools/baseline_off.sh', 'source_commits': [], 'add_only': True},
    'engines': [{'name': 'qv', 'path': 'check', 'serves_properties': [c['property_id'] for c in spec['checks']],
                 'kind_free_text': 'static analysis: LibTooling fact extractor (clang CFG, all sub-expressions) + Python engines (path-sensitive typestate/property simulation with finite value sets, decision-table and transducer extraction, dominator/guard rules, who-may-call over the linked program, sibling agreement)'}],
    'checks': checks,
    'not_applicable': spec['not_applicable'],
    'notes': spec.get('notes', ''),
}
json.dump(m, open(os.path.join(root, 'MANIFEST.json'), 'w'), indent=1)
print('MANIFEST.json: %d checks, %d not_applicable' % (len(checks), len(m['not_applicable'])))
