#!/bin/sh
# revert each fix commit in a scratch worktree and run the property's check: must exit 1
for pair in C18:88fcc8f C18:adca7ea C06:8249481 C11:7883b35 C07:2d203ab C20:e337791 C09:5211683 C07:aa5b392 C18:679070e C07:c757c93; do
  pid=${pair%%:*}; c=${pair##*:}; wt=/var/tmp/nw/rev-$c
  git -C /repo worktree add -q --detach $wt HEAD || continue
  if (cd $wt && git revert --no-commit $c >/dev/null 2>&1); then
    QV_EVIDENCE_DIR=/var/tmp/nw/.evidence /verif/check $pid --repo $wt > /tmp/rev-$c.log 2>&1; rc=$?
    echo "$pid $c exit=$rc $(grep -m1 '^  rule' /tmp/rev-$c.log | cut -c1-160)"
  else
    echo "$pid $c revert-conflict"
  fi
  git -C /repo worktree remove --force $wt
done
