#!/bin/sh
# tools/confirm_neutral.sh <dir-with-patch.diff> <name>: the behaviour-preserving edit applies to /repo HEAD,
# builds, and the 22 tests pass (fresh worktree outside /repo and /verif, removed afterwards).
src="$1"; name="$2"; wt=/tmp/neuchk/wt-$name; res=/tmp/neuchk/$name.result
mkdir -p /tmp/neuchk; rm -f "$res"
git -C /repo worktree add --detach "$wt" HEAD >/dev/null 2>&1 || { echo "worktree failed" > "$res"; exit 1; }
cleanup() { git -C /repo worktree remove --force "$wt" >/dev/null 2>&1; rm -rf "$wt"; }
( cd "$wt" && git apply "$src/patch.diff" ) || { echo "FAIL patch does not apply" > "$res"; cleanup; cat "$res"; exit 1; }
( cd "$wt" && make -j4 it >/dev/null 2>&1 && make -C tests test > /tmp/neuchk/$name.tests.log 2>&1 ); t=$?
npass=$(grep -c "^100%" /tmp/neuchk/$name.tests.log 2>/dev/null)
cleanup
if [ $t -eq 0 ] && [ "$npass" = "4" ]; then echo "OK build+tests=$t suites100=$npass" > "$res"; else echo "FAIL build+tests=$t suites100=$npass" > "$res"; fi
echo "$name $(cat $res)"
