#!/usr/bin/env python3
"""Runs behaviour-preserving edits (default dir /tmp/neu/out, or /verif/neutral) against the check of their property;
every one must stay silent (exit 0)."""
import os, re, subprocess, sys
base = sys.argv[1] if len(sys.argv) > 1 else '/tmp/neu/out'
only = sys.argv[2:]
rows = []
for name in sorted(os.listdir(base)):
    if only and not any(name.startswith(o) for o in only):
        continue
    patch = os.path.join(base, name, 'patch.diff')
    if not os.path.exists(patch):
        continue
    pid = name.split('-')[0]
    if subprocess.run(['git', '-C', '/repo', 'diff', '--quiet']).returncode != 0:
        print('/repo dirty'); sys.exit(3)
    if subprocess.run(['git', '-C', '/repo', 'apply', patch], capture_output=True).returncode != 0:
        rows.append((name, 'patch does not apply', '')); continue
    try:
        r = subprocess.run(['/verif/check', pid], capture_output=True, text=True)
        msg = '; '.join(re.findall(r'^  rule (\S+ \[\S+\] instance \S+)', r.stdout, re.M)[:3]) or ' '.join(re.findall(r'^ANALYSIS-BROKEN: (.*)', r.stdout, re.M))[:200]
        rows.append((name, r.returncode, msg))
    finally:
        subprocess.run(['git', '-C', '/repo', 'checkout', '--', '.'])
for n, rc, msg in rows:
    print('%-8s exit=%s %s' % (n, rc, msg))
print('silent %d of %d' % (sum(1 for r in rows if r[1] == 0), len(rows)))
