#!/usr/bin/env python3
"""Runs every seeded change under /verif/seeded against the check of its property (and optionally others),
records what fired in seeded/<id>/meta.json and prints a table.  /repo is restored after each one."""
import json, os, re, subprocess, sys
S = '/verif/seeded'
rows = []
names = sorted(d for d in os.listdir(S) if os.path.isdir(os.path.join(S, d)))
if len(sys.argv) > 1:
    names = [n for n in names if n in sys.argv[1:]]
for name in names:
    pid = name.split('-')[0]
    patch = os.path.join(S, name, 'patch.diff')
    if subprocess.run(['git', '-C', '/repo', 'diff', '--quiet']).returncode != 0:
        print('/repo dirty; abort'); sys.exit(3)
    if subprocess.run(['git', '-C', '/repo', 'apply', patch]).returncode != 0:
        rows.append((name, pid, 'patch does not apply', [])); continue
    try:
        r = subprocess.run(['/verif/check', pid], capture_output=True, text=True)
        fired = re.findall(r'^  rule (\S+) \[\S+\] instance (\S+) at (\S+):', r.stdout, re.M)
        rows.append((name, pid, r.returncode, sorted({'%s / %s' % (a, b) for a, b, c in fired})))
    finally:
        subprocess.run(['git', '-C', '/repo', 'checkout', '--', '.'])
    mp = os.path.join(S, name, 'meta.json')
    meta = json.load(open(mp))
    meta['detected_by'] = rows[-1][3]
    meta['check_exit'] = rows[-1][2]
    json.dump(meta, open(mp, 'w'), indent=1)
for name, pid, rc, fired in rows:
    print('%-7s %s exit=%s  %s' % (name, pid, rc, '; '.join(fired)[:200] or '-- NOT DETECTED --'))
print('detected %d of %d' % (sum(1 for r in rows if r[2] == 1), len(rows)))
