#!/usr/bin/env python3
"""tools/import_seed.py <name>... — copy a confirmed seeded change from /tmp/mut/out/<name> to /verif/seeded/<name>/
with meta.json (only if /tmp/seedchk/<name>.result says OK)."""
import json, os, shutil, sys
for name in sys.argv[1:]:
    src = os.environ.get('SEED_SRC', '/tmp/mut/out') + '/' + name
    res = '/tmp/seedchk/%s.result' % name
    if not os.path.exists(res) or not open(res).read().startswith('OK'):
        print(name, 'not confirmed:', open(res).read().strip() if os.path.exists(res) else 'no result')
        continue
    dst = '/verif/seeded/' + name
    if os.path.isdir(dst):
        shutil.rmtree(dst)
    shutil.copytree(src, dst)
    notes = open(os.path.join(src, 'notes.md')).read() if os.path.exists(os.path.join(src, 'notes.md')) else ''
    meta = {
        'id': name,
        'property': name.split('-')[0],
        'origin': 'written by an independent sub-agent that saw only the property text and a scratch worktree of /repo (nothing from /verif)',
        'needs_to_manifest': notes.strip()[:1500],
        'confirmed_by': 'tools/confirm_seed.sh %s: fresh worktree of /repo HEAD; demo.sh on the clean tree exits 0; patch applies; make -j16 it builds; make -C tests test passes (4 suites 100%%, 22 tests); demo.sh with the patch exits non-zero' % name,
        'confirm_result': open(res).read().strip(),
        'detected_by': [],
    }
    json.dump(meta, open(os.path.join(dst, 'meta.json'), 'w'), indent=1)
    print(name, 'imported')
