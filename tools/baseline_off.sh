#!/bin/sh
# Runs the repository's own test suite on a scratch copy of /repo with no verification define set.
set -e
S=$(mktemp -d "${TMPDIR:-/var/tmp}/qvbase.XXXXXX")
trap 'rm -rf "$S"' EXIT
git -C /repo ls-files -z | rsync -a --from0 --files-from=- /repo/ "$S"/
cd "$S" && make -j16 it >/dev/null 2>&1 && make -C tests test
