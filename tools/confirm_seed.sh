#!/bin/sh
# tools/confirm_seed.sh <name>   (e.g. C01-1): confirms a seeded change from /tmp/mut/out/<name>:
# demo passes on clean HEAD, patch applies, tree builds, 22 tests pass, demo fails with the patch.
# Writes /tmp/seedchk/<name>.result ; on success copies it to /verif/seeded/<name>/.
name="$1"; src=${SEED_SRC:-/tmp/mut/out}/$name; wt=/tmp/seedchk/wt-$name; res=/tmp/seedchk/$name.result
mkdir -p /tmp/seedchk; rm -f "$res"
git -C /repo worktree add --detach "$wt" HEAD >/dev/null 2>&1 || { echo "worktree failed" > "$res"; exit 1; }
cleanup() { git -C /repo worktree remove --force "$wt" >/dev/null 2>&1; rm -rf "$wt"; }
( cd "$wt" && make -j16 it >/dev/null 2>&1 )
( cd "$src" && timeout 1200 ${SEED_SH:-sh} ./demo.sh "$wt" > /tmp/seedchk/$name.clean.log 2>&1 ); c0=$?
( cd "$wt" && git apply "$src/patch.diff" ) || { echo "FAIL patch does not apply" > "$res"; cleanup; exit 1; }
( cd "$wt" && make -j16 it >/dev/null 2>&1 && make -C tests test > /tmp/seedchk/$name.tests.log 2>&1 ); t=$?
npass=$(grep -c "^100%" /tmp/seedchk/$name.tests.log 2>/dev/null)
( cd "$src" && timeout 1200 ${SEED_SH:-sh} ./demo.sh "$wt" > /tmp/seedchk/$name.patched.log 2>&1 ); c1=$?
cleanup
if [ $c0 -eq 0 ] && [ $t -eq 0 ] && [ "$npass" = "4" ] && [ $c1 -ne 0 ]; then
  echo "OK demo_clean=$c0 build+tests=$t suites100=$npass demo_patched=$c1" > "$res"
else
  echo "FAIL demo_clean=$c0 build+tests=$t suites100=$npass demo_patched=$c1" > "$res"
fi
cat "$res"
