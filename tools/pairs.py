import subprocess, sys, os, re, tempfile, shutil
from concurrent.futures import ThreadPoolExecutor
base = sys.argv[1]
pairs = [a.split(':') for a in sys.argv[2:]]
root = tempfile.mkdtemp(prefix='qvpair.', dir='/var/tmp')
env = dict(os.environ, QV_EVIDENCE_DIR=os.path.join(root, 'ev'))
def one(p):
    name, ids = p[0], p[1].split(',')
    wt = os.path.join(root, name)
    subprocess.run(['git','-C','/repo','worktree','add','--detach',wt,'HEAD'],capture_output=True)
    out=[]
    try:
        if subprocess.run(['git','-C',wt,'apply',os.path.join(base,name,'patch.diff')],capture_output=True).returncode: return [(name,'-','noapply','')]
        procs={i:subprocess.Popen(['/verif/check',i,'--repo',wt],stdout=subprocess.PIPE,stderr=subprocess.STDOUT,text=True,env=env) for i in ids}
        for i,pr in procs.items():
            o,_=pr.communicate()
            msg='; '.join('%s / %s'%m for m in re.findall(r'^  rule (\S+) \[\S+\] instance (\S+)',o,re.M)[:3]) or ' '.join(re.findall(r'^ANALYSIS-BROKEN: (.*)',o,re.M))[:200]
            out.append((name,i,pr.returncode,msg))
    finally:
        subprocess.run(['git','-C','/repo','worktree','remove','--force',wt],capture_output=True); shutil.rmtree(wt,ignore_errors=True)
    return out
with ThreadPoolExecutor(5) as ex:
    for rows in ex.map(one,pairs):
        for r in rows: print('%-8s %s exit=%s %s'%r)
shutil.rmtree(root,ignore_errors=True)
