#!/usr/bin/env python3
"""tools/matrix.py MODE [DIR] [NAME-PREFIX...]    — runs patches against the checks on scratch worktrees of /repo HEAD
(outside /repo and /verif, removed afterwards; evidence of these runs goes to a scratch dir, not /verif/evidence).

  MODE neutral : every behaviour-preserving edit under DIR (default /verif/neutral) against the check of ITS property: must exit 0
  MODE cross   : every behaviour-preserving edit against ALL 20 checks: must exit 0
  MODE seeded  : every seeded change under DIR (default /verif/seeded) against the check of its property: must exit 1
                 (writes detected_by into meta.json when DIR is /verif/seeded)
"""
import json, os, re, shutil, subprocess, sys, tempfile
from concurrent.futures import ThreadPoolExecutor

mode = sys.argv[1]
base = sys.argv[2] if len(sys.argv) > 2 and os.path.isdir(sys.argv[2]) else ('/verif/seeded' if mode == 'seeded' else '/verif/neutral')
only = [a for a in sys.argv[2:] if not os.path.isdir(a)]
ALL = ['C%02d' % i for i in range(1, 21)]
root = tempfile.mkdtemp(prefix='qvmx.', dir='/var/tmp')
evd = os.path.join(root, 'evidence')
env = dict(os.environ, QV_EVIDENCE_DIR=evd)


def one(name):
    patch = os.path.join(base, name, 'patch.diff')
    wt = os.path.join(root, name)
    rows = []
    if subprocess.run(['git', '-C', '/repo', 'worktree', 'add', '--detach', wt, 'HEAD'], capture_output=True).returncode != 0:
        return [(name, '-', 'worktree failed', '')]
    try:
        if subprocess.run(['git', '-C', wt, 'apply', patch], capture_output=True).returncode != 0:
            return [(name, '-', 'patch does not apply', '')]
        ids = ALL if mode == 'cross' else [name.split('-')[0]]
        procs = {i: subprocess.Popen(['/verif/check', i, '--repo', wt], stdout=subprocess.PIPE, stderr=subprocess.STDOUT, text=True, env=env) for i in ids}
        for i, p in procs.items():
            out, _ = p.communicate()
            msg = '; '.join('%s / %s' % m for m in re.findall(r'^  rule (\S+) \[\S+\] instance (\S+)', out, re.M)[:3]) \
                or ' '.join(re.findall(r'^ANALYSIS-BROKEN: (.*)', out, re.M))[:200]
            rows.append((name, i, p.returncode, msg))
    finally:
        subprocess.run(['git', '-C', '/repo', 'worktree', 'remove', '--force', wt], capture_output=True)
        shutil.rmtree(wt, ignore_errors=True)
    return rows


names = [n for n in sorted(os.listdir(base)) if os.path.exists(os.path.join(base, n, 'patch.diff')) and (not only or any(n.startswith(o) for o in only))]
jobs = int(os.environ.get('MX_JOBS', '2')) if mode == 'cross' else 6
bad = tot = 0
try:
    with ThreadPoolExecutor(jobs) as ex:
        for rows in ex.map(one, names):
            for name, i, rc, msg in rows:
                tot += 1
                want = 1 if mode == 'seeded' else 0
                okrow = rc == want
                if not okrow:
                    bad += 1
                if mode == 'seeded':
                    print('%-8s %s exit=%s  %s' % (name, i, rc, msg if rc == 1 else '-- NOT DETECTED -- ' + str(msg)))
                    mp = os.path.join(base, name, 'meta.json')
                    if rc == 1 and base == '/verif/seeded' and os.path.exists(mp):
                        meta = json.load(open(mp))
                        meta['detected_by'] = [m.strip() for m in msg.split(';')]
                        json.dump(meta, open(mp, 'w'), indent=1)
                elif not okrow:
                    print('%-8s %s exit=%s %s' % (name, i, rc, msg))
                sys.stdout.flush()
finally:
    subprocess.run(['git', '-C', '/repo', 'worktree', 'prune'], capture_output=True)
    shutil.rmtree(root, ignore_errors=True)
print({'neutral': 'alarms', 'cross': 'alarms', 'seeded': 'missed'}[mode], bad, 'of', tot, 'runs')
