#!/bin/sh
# mutation controls for the C07 verdict sessions
run() { name=$1; file=$2; expr=$3; wt=/var/tmp/nw/m7-$name; git -C /repo worktree add -q --detach $wt HEAD; python3 - "$wt/$file" "$expr" <<'PY'
import sys,re
p,e=sys.argv[1],sys.argv[2]
old,new=e.split('=>')
s=open(p).read(); assert old in s, old; open(p,'w').write(s.replace(old,new,1))
PY
( cd $wt && make -j8 it >/dev/null 2>&1 && echo "$name builds" || echo "$name BUILD FAILS")
QV_EVIDENCE_DIR=/var/tmp/nw/.evidence /verif/check C07 --repo $wt 2>&1 | grep -E "^==|  rule|BROKEN" | cut -c1-260
git -C /repo worktree remove --force $wt; }
run sender qmail-qmtpd.c '    if (!flagsenderok) qmail_fail(&qq);=>'
run norcpt qmail-qmtpd.c '    if (!flagbother) qmail_fail(&qq);=>'
run sizelf qmail-qmtpd.c '        if (len > databytes) {=>        if (len > databytes + 1) {'
run sizedos qmail-qmtpd.c '        if (bytestooverflow) if (!--bytestooverflow) qmail_fail(&qq);
        qmail_put(&qq,&ch,1);=>        qmail_put(&qq,&ch,1);'
run flagok qmail-qmqpd.c '  if (!flagok)
    result = "Dsorry, I can'"'"'t accept addresses like that (#5.1.3)";=>'
run kalways qmail-qmqpd.c '  if (!*result) {=>  if (!*result || *result == '"'"'Z'"'"') {'
run rcptd qmail-qmtpd.c '            case 0: failure.s[failure.len - 1] = '"'"'D'"'"';=>            case 0: break;'
